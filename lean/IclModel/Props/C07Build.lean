/-
`CashLetter.build` of cashLetter.go and the setters it calls are TRANSLATED statement by statement into Lean
(Gen/ClBuildT.lean, regenerated on every run): the in-place numbering of bundles, items and addenda through pointers
becomes loops that return the renumbered lists.  Theorem `clbuild_eq_model`: for every cash letter the translation and
the build model (`cashLetterBuild`, Build.lean - the function the C06 / C07 / C09 / C17 theorems speak about) return the
same result: the same error, or the same cash letter with the same numbers in every record and the same control record.
-/
import IclModel.Gen.ClBuildT
import IclModel.Props.C06Build
namespace Icl.ClBuildEq
open Icl Icl.BuildRT Icl.BuildEq

/-! ### loops that change their elements -/

theorem forMap_nil {α : Type} (σ : Env) (f : α → Env → α × Env) : forMap [] σ f = ([], σ) := rfl

theorem forMap_cons {α : Type} (x : α) (r : List α) (σ : Env) (f : α → Env → α × Env) :
    forMap (x :: r) σ f = ((f x σ).1 :: (forMap r (f x σ).2 f).1, (forMap r (f x σ).2 f).2) := rfl

/-- the body of the four addenda loops: stamp the item's number, stamp the record number, advance it, wrap it -/
def addBody (sv rv fld : String) (L : Int) (conv : Int → Bytes) (r : Vals) (σ : Env) : Vals × Env :=
  let r := r.setS fld (conv (σ.get sv))
  let r := r.setI "RecordNumber" (σ.get rv)
  let σ := σ.set rv ((σ.get rv) + (1 : Int))
  let σ := if decide ((σ.get rv) > L) then (
      let σ := σ.set rv (1 : Int)
      σ) else σ
  (r, σ)

theorem addBody_fst (sv rv fld : String) (L : Int) (conv : Int → Bytes) (r : Vals) (σ : Env) :
    (addBody sv rv fld L conv r σ).1 = (r.setS fld (conv (σ.get sv))).setI "RecordNumber" (σ.get rv) := rfl

theorem addBody_get_other (sv rv fld : String) (L : Int) (conv : Int → Bytes) (r : Vals) (σ : Env) (k : String) (hk : rv ≠ k) :
    (addBody sv rv fld L conv r σ).2.get k = σ.get k := by
  unfold addBody
  dsimp only
  split <;> simp [get_set, hk]

theorem succ_mod (j L : Nat) (hL : 0 < L) :
    (j + 1) % L = if j % L + 1 = L then 0 else j % L + 1 := by
  have e : (j + 1) % L = (j % L + 1) % L := by
    rw [Nat.add_mod j 1 L, Nat.add_mod (j % L) 1 L, Nat.mod_mod]
  have hlt := Nat.mod_lt j hL
  rw [e]
  by_cases hw : j % L + 1 = L
  · simp only [hw, if_true, Nat.mod_self]
  · simp only [hw, if_false]
    exact Nat.mod_eq_of_lt (by omega)

theorem addBody_get_rv (sv rv fld : String) (L : Nat) (hL : 0 < L) (conv : Int → Bytes) (r : Vals) (σ : Env) (j : Nat)
    (h : σ.get rv = ((j % L + 1 : Nat) : Int)) :
    (addBody sv rv fld (L : Int) conv r σ).2.get rv = (((j + 1) % L + 1 : Nat) : Int) := by
  unfold addBody
  dsimp only
  simp only [get_set, if_true, h]
  have hlt := Nat.mod_lt j hL
  rw [succ_mod j L hL]
  by_cases hw : j % L + 1 = L
  · have : decide ((((j % L + 1 : Nat) : Int) + 1) > (L : Int)) = true := by
      simp only [decide_eq_true_eq]; omega
    rw [this]
    simp only [if_true, get_set, hw]
    rfl
  · have : decide ((((j % L + 1 : Nat) : Int) + 1) > (L : Int)) = false := by
      simp only [decide_eq_false_iff_not]; omega
    rw [this]
    simp only [Bool.false_eq_true, if_false, get_set, if_true, hw]
    omega

def recFrom (L j n : Nat) : List Int := (List.range n).map (fun i => (((i + j) % L + 1 : Nat) : Int))

theorem recFrom_zero (L n : Nat) : recFrom L 0 n = recNums L n := by
  unfold recFrom recNums
  simp

theorem recFrom_succ (L j n : Nat) : recFrom L j (n + 1) = ((j % L + 1 : Nat) : Int) :: recFrom L (j + 1) n := by
  unfold recFrom
  rw [List.range_succ_eq_map]
  simp only [List.map_cons, List.map_map, Nat.zero_add, List.cons.injEq, true_and]
  apply List.map_congr_left
  intro i _
  simp only [Function.comp]
  have : i + 1 + j = i + (j + 1) := by omega
  rw [this]

/-- an addenda loop stamps the item's number and the record numbers 1..L, 1.. and touches no other local -/
theorem addLoop (sv rv fld : String) (L : Nat) (hL : 0 < L) (conv : Int → Bytes) (hne : rv ≠ sv) :
    ∀ (l : List Vals) (σ : Env) (j : Nat), σ.get rv = ((j % L + 1 : Nat) : Int) →
      (forMap l σ (addBody sv rv fld (L : Int) conv)).1 =
        zipSet l (fun v n => (v.setS fld (conv (σ.get sv))).setI "RecordNumber" n) (recFrom L j l.length) ∧
      (∀ k, rv ≠ k → (forMap l σ (addBody sv rv fld (L : Int) conv)).2.get k = σ.get k) := by
  intro l
  induction l with
  | nil => intro σ j _; exact ⟨rfl, fun _ _ => rfl⟩
  | cons x r ih =>
    intro σ j h
    have h' := addBody_get_rv sv rv fld L hL conv x σ j h
    obtain ⟨i1, i2⟩ := ih (addBody sv rv fld (L : Int) conv x σ).2 (j + 1) h'
    rw [forMap_cons]
    constructor
    · simp only [i1, addBody_fst, List.length_cons, recFrom_succ, zipSet, List.zip_cons_cons, List.map_cons, h,
        addBody_get_other sv rv fld (L : Int) conv x σ sv hne]
    · intro k hk
      simp only [i2 k hk, addBody_get_other sv rv fld (L : Int) conv x σ k hk]

/-! ### one item -/

/-- a supplied item sequence number replaces the running counter -/
def preC (cd : Item Vals) (σ : Env) : Env :=
  if (!(cd.detail.s "EceInstitutionItemSequenceNumber").isEmpty) then (
      let σ := σ.set "i" (parseNum (cd.detail.s "EceInstitutionItemSequenceNumber"))
      let σ := σ.set "cdSequenceNumber" (σ.get "i")
      σ) else σ

def preR (rd : Item Vals) (σ : Env) : Env :=
  if (!(rd.detail.s "EceInstitutionItemSequenceNumber").isEmpty) then (
      let σ := σ.set "rdSequenceNumber" (parseNum (rd.detail.s "EceInstitutionItemSequenceNumber"))
      σ) else σ

/-- the body of the loop over the forward items of a bundle -/
def itemC (cd : Item Vals) (σ : Env) : Item Vals × Env :=
  let σ := preC cd σ
  let σ := σ.set "cdAddendumARecordNumber" (1 : Int)
  let σ := σ.set "cdAddendumCRecordNumber" (1 : Int)
  let cd := { cd with detail := cd.detail.setS "EceInstitutionItemSequenceNumber" (numericField (σ.get "cdSequenceNumber") 15) }
  let la := forMap cd.addA σ (addBody "cdSequenceNumber" "cdAddendumARecordNumber" "BOFDItemSequenceNumber" (9 : Nat) (fun n => numericField n 15))
  let cd := { cd with addA := la.1 }
  let lc := forMap cd.addC la.2 (addBody "cdSequenceNumber" "cdAddendumCRecordNumber" "EndorsingBankItemSequenceNumber" (99 : Nat) itoa)
  let cd := { cd with addC := lc.1 }
  let σ := lc.2
  let σ := σ.set "cdSequenceNumber" ((σ.get "cdSequenceNumber") + (1 : Int))
  let σ := σ.set "cashLetterItemsCount" ((σ.get "cashLetterItemsCount") + (1 : Int))
  let σ := σ.set "cashLetterTotalAmount" ((σ.get "cashLetterTotalAmount") + cd.detail.i "ItemAmount")
  let σ := σ.set "cashLetterImagesCount" ((σ.get "cashLetterImagesCount") + (cd.ivDetail.length : Int))
  (cd, σ)

/-- the body of the loop over the return items of a bundle -/
def itemR (rd : Item Vals) (σ : Env) : Item Vals × Env :=
  let σ := preR rd σ
  let σ := σ.set "rdAddendumARecordNumber" (1 : Int)
  let σ := σ.set "rdAddendumDRecordNumber" (1 : Int)
  let rd := { rd with detail := rd.detail.setS "EceInstitutionItemSequenceNumber" (itoa (σ.get "rdSequenceNumber")) }
  let la := forMap rd.addA σ (addBody "rdSequenceNumber" "rdAddendumARecordNumber" "BOFDItemSequenceNumber" (9 : Nat) itoa)
  let rd := { rd with addA := la.1 }
  let ld := forMap rd.addD la.2 (addBody "rdSequenceNumber" "rdAddendumDRecordNumber" "EndorsingBankItemSequenceNumber" (99 : Nat) itoa)
  let rd := { rd with addD := ld.1 }
  let σ := ld.2
  let σ := σ.set "rdSequenceNumber" ((σ.get "rdSequenceNumber") + (1 : Int))
  let σ := σ.set "cashLetterItemsCount" ((σ.get "cashLetterItemsCount") + (1 : Int))
  let σ := σ.set "cashLetterTotalAmount" ((σ.get "cashLetterTotalAmount") + rd.detail.i "ItemAmount")
  let σ := σ.set "cashLetterImagesCount" ((σ.get "cashLetterImagesCount") + (rd.ivDetail.length : Int))
  (rd, σ)

/-- the locals of `CashLetter.build` that outlive an item -/
structure View where
  bsn : Int
  bcount : Int
  credit : Int
  items : Int
  amount : Int
  images : Int

def view (σ : Env) : View :=
  ⟨σ.get "bundleSequenceNumber", σ.get "cashLetterBundleCount", σ.get "creditIndicator", σ.get "cashLetterItemsCount",
    σ.get "cashLetterTotalAmount", σ.get "cashLetterImagesCount"⟩

theorem view_ext (a b : View) (h1 : a.bsn = b.bsn) (h2 : a.bcount = b.bcount) (h3 : a.credit = b.credit)
    (h4 : a.items = b.items) (h5 : a.amount = b.amount) (h6 : a.images = b.images) : a = b := by
  cases a; cases b; simp_all

theorem preC_seq (cd : Item Vals) (σ : Env) : (preC cd σ).get "cdSequenceNumber" = seqOf (σ.get "cdSequenceNumber") cd := by
  unfold preC seqOf
  cases (cd.detail.s "EceInstitutionItemSequenceNumber").isEmpty <;> simp [get_set]

theorem preC_other (cd : Item Vals) (σ : Env) (k : String) (h1 : "i" ≠ k) (h2 : "cdSequenceNumber" ≠ k) :
    (preC cd σ).get k = σ.get k := by
  unfold preC
  cases (cd.detail.s "EceInstitutionItemSequenceNumber").isEmpty <;> simp [get_set, h1, h2]

theorem preR_seq (rd : Item Vals) (σ : Env) : (preR rd σ).get "rdSequenceNumber" = seqOf (σ.get "rdSequenceNumber") rd := by
  unfold preR seqOf
  cases (rd.detail.s "EceInstitutionItemSequenceNumber").isEmpty <;> simp [get_set]

theorem preR_other (rd : Item Vals) (σ : Env) (k : String) (h2 : "rdSequenceNumber" ≠ k) :
    (preR rd σ).get k = σ.get k := by
  unfold preR
  cases (rd.detail.s "EceInstitutionItemSequenceNumber").isEmpty <;> simp [get_set, h2]

theorem get_set_eq (σ : Env) (k : String) (x : Int) : (σ.set k x).get k = x := by simp
theorem get_set_ne (σ : Env) (k k' : String) (x : Int) (h : k ≠ k') : (σ.set k x).get k' = σ.get k' := by simp [h]

abbrev bodyCA := addBody "cdSequenceNumber" "cdAddendumARecordNumber" "BOFDItemSequenceNumber" (9 : Nat) (fun n => numericField n 15)
abbrev bodyCC := addBody "cdSequenceNumber" "cdAddendumCRecordNumber" "EndorsingBankItemSequenceNumber" (99 : Nat) itoa
abbrev bodyRA := addBody "rdSequenceNumber" "rdAddendumARecordNumber" "BOFDItemSequenceNumber" (9 : Nat) itoa
abbrev bodyRD := addBody "rdSequenceNumber" "rdAddendumDRecordNumber" "EndorsingBankItemSequenceNumber" (99 : Nat) itoa

theorem itemC_spec (cd : Item Vals) (σ : Env) :
    (itemC cd σ).1 =
      { cd with
        detail := cd.detail.setS "EceInstitutionItemSequenceNumber" (numericField (seqOf (σ.get "cdSequenceNumber") cd) 15),
        addA := zipSet cd.addA (fun v n => (v.setS "BOFDItemSequenceNumber" (numericField (seqOf (σ.get "cdSequenceNumber") cd) 15)).setI "RecordNumber" n) (recNums 9 cd.addA.length),
        addC := zipSet cd.addC (fun v n => (v.setS "EndorsingBankItemSequenceNumber" (itoa (seqOf (σ.get "cdSequenceNumber") cd))).setI "RecordNumber" n) (recNums 99 cd.addC.length) } ∧
    (itemC cd σ).2.get "cdSequenceNumber" = seqOf (σ.get "cdSequenceNumber") cd + 1 ∧
    view (itemC cd σ).2 = { view σ with items := (view σ).items + 1, amount := (view σ).amount + cd.detail.i "ItemAmount",
                                         images := (view σ).images + (cd.ivDetail.length : Int) } := by
  unfold itemC
  dsimp only
  generalize hσ2 : ((preC cd σ).set "cdAddendumARecordNumber" (1 : Int)).set "cdAddendumCRecordNumber" (1 : Int) = σ2
  have hs2 : σ2.get "cdSequenceNumber" = seqOf (σ.get "cdSequenceNumber") cd := by
    rw [← hσ2, get_set_ne _ _ _ _ (by decide), get_set_ne _ _ _ _ (by decide), preC_seq]
  have hA1 : σ2.get "cdAddendumARecordNumber" = 1 := by
    rw [← hσ2, get_set_ne _ _ _ _ (by decide), get_set_eq]
  have hC1 : σ2.get "cdAddendumCRecordNumber" = 1 := by
    rw [← hσ2, get_set_eq]
  have hv : ∀ k, "cdAddendumARecordNumber" ≠ k → "cdAddendumCRecordNumber" ≠ k → "i" ≠ k → "cdSequenceNumber" ≠ k →
      σ2.get k = σ.get k := by
    intro k h1 h2 h3 h4
    rw [← hσ2, get_set_ne _ _ _ _ h2, get_set_ne _ _ _ _ h1, preC_other cd σ k h3 h4]
  obtain ⟨a1, a2⟩ := addLoop "cdSequenceNumber" "cdAddendumARecordNumber" "BOFDItemSequenceNumber" 9 (by decide)
    (fun n => numericField n 15) (by decide) cd.addA σ2 0 (by rw [hA1]; rfl)
  generalize forMap cd.addA σ2 (addBody "cdSequenceNumber" "cdAddendumARecordNumber" "BOFDItemSequenceNumber" (9 : Nat) (fun n => numericField n 15)) = la at a1 a2 ⊢
  obtain ⟨c1, c2⟩ := addLoop "cdSequenceNumber" "cdAddendumCRecordNumber" "EndorsingBankItemSequenceNumber" 99 (by decide)
    itoa (by decide) cd.addC la.2 0 (by rw [a2 _ (by decide), hC1]; rfl)
  generalize forMap cd.addC la.2 (addBody "cdSequenceNumber" "cdAddendumCRecordNumber" "EndorsingBankItemSequenceNumber" (99 : Nat) itoa) = lc at c1 c2 ⊢
  rw [recFrom_zero] at a1 c1
  have hk : ∀ k, "cdAddendumARecordNumber" ≠ k → "cdAddendumCRecordNumber" ≠ k → lc.2.get k = σ2.get k := by
    intro k h1 h2
    rw [c2 k h2, a2 k h1]
  refine ⟨?_, ?_, ?_⟩
  · rw [c1, a1, a2 _ (by decide), hs2]
  · rw [get_set_ne _ _ _ _ (by decide), get_set_ne _ _ _ _ (by decide), get_set_ne _ _ _ _ (by decide), get_set_eq,
      hk _ (by decide) (by decide), hs2]
  · apply view_ext <;> simp only [view]
    · rw [get_set_ne _ _ _ _ (by decide), get_set_ne _ _ _ _ (by decide), get_set_ne _ _ _ _ (by decide),
        get_set_ne _ _ _ _ (by decide), hk _ (by decide) (by decide), hv _ (by decide) (by decide) (by decide) (by decide)]
    · rw [get_set_ne _ _ _ _ (by decide), get_set_ne _ _ _ _ (by decide), get_set_ne _ _ _ _ (by decide),
        get_set_ne _ _ _ _ (by decide), hk _ (by decide) (by decide), hv _ (by decide) (by decide) (by decide) (by decide)]
    · rw [get_set_ne _ _ _ _ (by decide), get_set_ne _ _ _ _ (by decide), get_set_ne _ _ _ _ (by decide),
        get_set_ne _ _ _ _ (by decide), hk _ (by decide) (by decide), hv _ (by decide) (by decide) (by decide) (by decide)]
    · rw [get_set_ne _ _ _ _ (by decide), get_set_ne _ _ _ _ (by decide), get_set_eq,
        get_set_ne _ _ _ _ (by decide), hk _ (by decide) (by decide), hv _ (by decide) (by decide) (by decide) (by decide)]
    · rw [get_set_ne _ _ _ _ (by decide), get_set_eq, get_set_ne _ _ _ _ (by decide),
        get_set_ne _ _ _ _ (by decide), hk _ (by decide) (by decide), hv _ (by decide) (by decide) (by decide) (by decide)]
      rfl
    · rw [get_set_eq, get_set_ne _ _ _ _ (by decide), get_set_ne _ _ _ _ (by decide),
        get_set_ne _ _ _ _ (by decide), hk _ (by decide) (by decide), hv _ (by decide) (by decide) (by decide) (by decide)]

theorem itemR_spec (rd : Item Vals) (σ : Env) :
    (itemR rd σ).1 =
      { rd with
        detail := rd.detail.setS "EceInstitutionItemSequenceNumber" (itoa (seqOf (σ.get "rdSequenceNumber") rd)),
        addA := zipSet rd.addA (fun v n => (v.setS "BOFDItemSequenceNumber" (itoa (seqOf (σ.get "rdSequenceNumber") rd))).setI "RecordNumber" n) (recNums 9 rd.addA.length),
        addD := zipSet rd.addD (fun v n => (v.setS "EndorsingBankItemSequenceNumber" (itoa (seqOf (σ.get "rdSequenceNumber") rd))).setI "RecordNumber" n) (recNums 99 rd.addD.length) } ∧
    (itemR rd σ).2.get "rdSequenceNumber" = seqOf (σ.get "rdSequenceNumber") rd + 1 ∧
    view (itemR rd σ).2 = { view σ with items := (view σ).items + 1, amount := (view σ).amount + rd.detail.i "ItemAmount",
                                         images := (view σ).images + (rd.ivDetail.length : Int) } := by
  unfold itemR
  dsimp only
  generalize hσ2 : ((preR rd σ).set "rdAddendumARecordNumber" (1 : Int)).set "rdAddendumDRecordNumber" (1 : Int) = σ2
  have hs2 : σ2.get "rdSequenceNumber" = seqOf (σ.get "rdSequenceNumber") rd := by
    rw [← hσ2, get_set_ne _ _ _ _ (by decide), get_set_ne _ _ _ _ (by decide), preR_seq]
  have hA1 : σ2.get "rdAddendumARecordNumber" = 1 := by
    rw [← hσ2, get_set_ne _ _ _ _ (by decide), get_set_eq]
  have hC1 : σ2.get "rdAddendumDRecordNumber" = 1 := by
    rw [← hσ2, get_set_eq]
  have hv : ∀ k, "rdAddendumARecordNumber" ≠ k → "rdAddendumDRecordNumber" ≠ k → "rdSequenceNumber" ≠ k →
      σ2.get k = σ.get k := by
    intro k h1 h2 h4
    rw [← hσ2, get_set_ne _ _ _ _ h2, get_set_ne _ _ _ _ h1, preR_other rd σ k h4]
  obtain ⟨a1, a2⟩ := addLoop "rdSequenceNumber" "rdAddendumARecordNumber" "BOFDItemSequenceNumber" 9 (by decide)
    itoa (by decide) rd.addA σ2 0 (by rw [hA1]; rfl)
  generalize forMap rd.addA σ2 (addBody "rdSequenceNumber" "rdAddendumARecordNumber" "BOFDItemSequenceNumber" (9 : Nat) itoa) = la at a1 a2 ⊢
  obtain ⟨c1, c2⟩ := addLoop "rdSequenceNumber" "rdAddendumDRecordNumber" "EndorsingBankItemSequenceNumber" 99 (by decide)
    itoa (by decide) rd.addD la.2 0 (by rw [a2 _ (by decide), hC1]; rfl)
  generalize forMap rd.addD la.2 (addBody "rdSequenceNumber" "rdAddendumDRecordNumber" "EndorsingBankItemSequenceNumber" (99 : Nat) itoa) = lc at c1 c2 ⊢
  rw [recFrom_zero] at a1 c1
  have hk : ∀ k, "rdAddendumARecordNumber" ≠ k → "rdAddendumDRecordNumber" ≠ k → lc.2.get k = σ2.get k := by
    intro k h1 h2
    rw [c2 k h2, a2 k h1]
  refine ⟨?_, ?_, ?_⟩
  · rw [c1, a1, a2 _ (by decide), hs2]
  · rw [get_set_ne _ _ _ _ (by decide), get_set_ne _ _ _ _ (by decide), get_set_ne _ _ _ _ (by decide), get_set_eq,
      hk _ (by decide) (by decide), hs2]
  · apply view_ext <;> simp only [view]
    · rw [get_set_ne _ _ _ _ (by decide), get_set_ne _ _ _ _ (by decide), get_set_ne _ _ _ _ (by decide),
        get_set_ne _ _ _ _ (by decide), hk _ (by decide) (by decide), hv _ (by decide) (by decide) (by decide)]
    · rw [get_set_ne _ _ _ _ (by decide), get_set_ne _ _ _ _ (by decide), get_set_ne _ _ _ _ (by decide),
        get_set_ne _ _ _ _ (by decide), hk _ (by decide) (by decide), hv _ (by decide) (by decide) (by decide)]
    · rw [get_set_ne _ _ _ _ (by decide), get_set_ne _ _ _ _ (by decide), get_set_ne _ _ _ _ (by decide),
        get_set_ne _ _ _ _ (by decide), hk _ (by decide) (by decide), hv _ (by decide) (by decide) (by decide)]
    · rw [get_set_ne _ _ _ _ (by decide), get_set_ne _ _ _ _ (by decide), get_set_eq,
        get_set_ne _ _ _ _ (by decide), hk _ (by decide) (by decide), hv _ (by decide) (by decide) (by decide)]
    · rw [get_set_ne _ _ _ _ (by decide), get_set_eq, get_set_ne _ _ _ _ (by decide),
        get_set_ne _ _ _ _ (by decide), hk _ (by decide) (by decide), hv _ (by decide) (by decide) (by decide)]
      rfl
    · rw [get_set_eq, get_set_ne _ _ _ _ (by decide), get_set_ne _ _ _ _ (by decide),
        get_set_ne _ _ _ _ (by decide), hk _ (by decide) (by decide), hv _ (by decide) (by decide) (by decide)]

/-! ### the items of one bundle -/

def amountOf (l : List (Item Vals)) : Int := sumInt (l.map (fun i => i.detail.i "ItemAmount"))
def imagesOf (l : List (Item Vals)) : Int := sumInt (l.map (fun i => (i.ivDetail.length : Int)))

theorem checksLoop : ∀ (l : List (Item Vals)) (σ : Env),
    (forMap l σ itemC).1 = numberChecks (σ.get "cdSequenceNumber") l ∧
    view (forMap l σ itemC).2 = { view σ with items := (view σ).items + (l.length : Int), amount := (view σ).amount + amountOf l,
                                               images := (view σ).images + imagesOf l } := by
  intro l
  induction l with
  | nil => intro σ; refine ⟨rfl, ?_⟩; apply view_ext <;> simp [forMap_nil, amountOf, imagesOf, sumInt_nil]
  | cons x r ih =>
    intro σ
    obtain ⟨s1, s2, s3⟩ := itemC_spec x σ
    obtain ⟨i1, i2⟩ := ih (itemC x σ).2
    rw [forMap_cons]
    refine ⟨?_, ?_⟩
    · simp only [i1, s1, s2, numberChecks]
    · rw [i2, s3]
      apply view_ext <;> simp only [amountOf, imagesOf, List.map_cons, sumInt_cons, List.length_cons] <;>
        first | rfl | omega | (simp; omega)

theorem returnsLoop : ∀ (l : List (Item Vals)) (σ : Env),
    (forMap l σ itemR).1 = numberReturns (σ.get "rdSequenceNumber") l ∧
    view (forMap l σ itemR).2 = { view σ with items := (view σ).items + (l.length : Int), amount := (view σ).amount + amountOf l,
                                               images := (view σ).images + imagesOf l } := by
  intro l
  induction l with
  | nil => intro σ; refine ⟨rfl, ?_⟩; apply view_ext <;> simp [forMap_nil, amountOf, imagesOf, sumInt_nil]
  | cons x r ih =>
    intro σ
    obtain ⟨s1, s2, s3⟩ := itemR_spec x σ
    obtain ⟨i1, i2⟩ := ih (itemR x σ).2
    rw [forMap_cons]
    refine ⟨?_, ?_⟩
    · simp only [i1, s1, s2, numberReturns]
    · rw [i2, s3]
      apply view_ext <;> simp only [amountOf, imagesOf, List.map_cons, sumInt_cons, List.length_cons] <;>
        first | rfl | omega | (simp; omega)

theorem numberChecks_facts : ∀ (l : List (Item Vals)) (c : Int),
    (numberChecks c l).length = l.length ∧ amountOf (numberChecks c l) = amountOf l ∧ imagesOf (numberChecks c l) = imagesOf l := by
  intro l
  induction l with
  | nil => intro c; exact ⟨rfl, rfl, rfl⟩
  | cons x r ih =>
    intro c
    obtain ⟨h1, h2, h3⟩ := ih (seqOf c x + 1)
    unfold amountOf imagesOf at *
    simp only [numberChecks, List.length_cons, List.map_cons, sumInt_cons, h1, h2, h3, Vals.setS, true_and]

theorem numberReturns_facts : ∀ (l : List (Item Vals)) (c : Int),
    (numberReturns c l).length = l.length ∧ amountOf (numberReturns c l) = amountOf l ∧ imagesOf (numberReturns c l) = imagesOf l := by
  intro l
  induction l with
  | nil => intro c; exact ⟨rfl, rfl, rfl⟩
  | cons x r ih =>
    intro c
    obtain ⟨h1, h2, h3⟩ := ih (seqOf c x + 1)
    unfold amountOf imagesOf at *
    simp only [numberReturns, List.length_cons, List.map_cons, sumInt_cons, h1, h2, h3, Vals.setS, true_and]

/-! ### one bundle -/

/-- the body of the loop over the bundles -/
def genB (m : Model) (b : Bundle Vals) (σ : Env) : Except BErr (Bundle Vals × Env) :=
  let b := { b with header := b.header.map (fun (r : Vals) => r.setS "BundleSequenceNumber" (numericField (σ.get "bundleSequenceNumber") 4)) }
  let σ := σ.set "cdSequenceNumber" (1 : Int)
  let lc := forMap b.checks σ itemC
  let b := { b with checks := lc.1 }
  let σ := lc.2.set "rdSequenceNumber" (1 : Int)
  let lr := forMap b.returns σ itemR
  let b := { b with returns := lr.1 }
  let σ := lr.2
  match bundleValidate b with
  | some fld => .error (ErrClass.bundle, fld)
  | none =>
    match Gen.B.build m b with
    | .error e => .error e
    | .ok b => .ok (b, σ.set "bundleSequenceNumber" ((σ.get "bundleSequenceNumber") + (1 : Int)))

/-- a bundle with its number, its items and their addenda numbered -/
def numberB (n : Nat) (b : Bundle Vals) (h : Vals) : Bundle Vals :=
  { b with header := some (h.setS "BundleSequenceNumber" (numericField n 4)),
           checks := numberChecks 1 b.checks, returns := numberReturns 1 b.returns }

def itemsB (b : Bundle Vals) : List (Item Vals) := b.checks ++ b.returns

theorem view_set_other (σ : Env) (k : String) (x : Int) (h1 : k ≠ "bundleSequenceNumber") (h2 : k ≠ "cashLetterBundleCount")
    (h3 : k ≠ "creditIndicator") (h4 : k ≠ "cashLetterItemsCount") (h5 : k ≠ "cashLetterTotalAmount")
    (h6 : k ≠ "cashLetterImagesCount") : view (σ.set k x) = view σ := by
  apply view_ext <;> simp only [view] <;> rw [get_set_ne] <;> assumption

theorem genB_spec (m : Model) (b : Bundle Vals) (h : Vals) (hb : b.header = some h) (σ : Env) (n : Nat)
    (hn : σ.get "bundleSequenceNumber" = (n : Int)) :
    ∃ σ', view σ' = { view σ with bsn := (n : Int) + 1, items := (view σ).items + ((itemsB b).length : Int),
                                  amount := (view σ).amount + amountOf (itemsB b), images := (view σ).images + imagesOf (itemsB b) } ∧
      genB m b σ =
        match bundleValidate (numberB n b h) with
        | some fld => .error (ErrClass.bundle, fld)
        | none =>
          match bundleBuild m (numberB n b h) with
          | .error e => .error e
          | .ok b2 => .ok (b2, σ') := by
  unfold genB
  dsimp only
  obtain ⟨c1, c2⟩ := checksLoop b.checks (σ.set "cdSequenceNumber" (1 : Int))
  generalize forMap b.checks (σ.set "cdSequenceNumber" (1 : Int)) itemC = lc at c1 c2 ⊢
  obtain ⟨r1, r2⟩ := returnsLoop b.returns (lc.2.set "rdSequenceNumber" (1 : Int))
  generalize forMap b.returns (lc.2.set "rdSequenceNumber" (1 : Int)) itemR = lr at r1 r2 ⊢
  rw [get_set_eq] at c1 r1
  rw [view_set_other _ _ _ (by decide) (by decide) (by decide) (by decide) (by decide) (by decide)] at c2 r2
  rw [c2] at r2
  refine ⟨lr.2.set "bundleSequenceNumber" ((lr.2.get "bundleSequenceNumber") + (1 : Int)), ?_, ?_⟩
  · have hb2 : lr.2.get "bundleSequenceNumber" = (n : Int) := by
      have := congrArg View.bsn r2
      simp only [view] at this
      rw [this, hn]
    apply view_ext <;> simp only [view]
    · rw [get_set_eq, hb2]
    · rw [get_set_ne _ _ _ _ (by decide)]; exact congrArg View.bcount r2
    · rw [get_set_ne _ _ _ _ (by decide)]; exact congrArg View.credit r2
    · rw [get_set_ne _ _ _ _ (by decide)]
      have := congrArg View.items r2
      simp only [view] at this
      rw [this]; simp only [itemsB, List.length_append]; omega
    · rw [get_set_ne _ _ _ _ (by decide)]
      have := congrArg View.amount r2
      simp only [view] at this
      rw [this]; simp only [itemsB, amountOf, List.map_append, sumInt_append]; omega
    · rw [get_set_ne _ _ _ _ (by decide)]
      have := congrArg View.images r2
      simp only [view] at this
      rw [this]; simp only [itemsB, imagesOf, List.map_append, sumInt_append]; omega
  · have hB : ({ header := Option.map (fun (r : Vals) => r.setS "BundleSequenceNumber" (numericField (σ.get "bundleSequenceNumber") 4)) b.header,
                 checks := lc.1, returns := lr.1, control := b.control } : Bundle Vals) = numberB n b h := by
      rw [c1, r1, hb, hn]; rfl
    rw [hB, build_eq_model]

/-! ### the bundles of a cash letter -/

theorem bundlesLoop (m : Model) : ∀ (l : List (Bundle Vals)) (σ : Env) (n : Nat),
    (∀ b ∈ l, b.header.isSome = true) → σ.get "bundleSequenceNumber" = (n : Int) →
    (∃ e, forMapE l σ (genB m) = .error e ∧ buildBundles m n l = .error e) ∨
    (∃ bs σ', forMapE l σ (genB m) = .ok (bs, σ') ∧ buildBundles m n l = .ok bs ∧ bs.length = l.length ∧
      view σ' = { view σ with bsn := (n : Int) + (l.length : Int),
                              items := (view σ).items + ((bs.flatMap itemsB).length : Int),
                              amount := (view σ).amount + amountOf (bs.flatMap itemsB),
                              images := (view σ).images + imagesOf (bs.flatMap itemsB) }) := by
  intro l
  induction l with
  | nil =>
    intro σ n _ _
    rename_i hn
    refine Or.inr ⟨[], σ, rfl, rfl, rfl, ?_⟩
    apply view_ext <;> simp [amountOf, imagesOf, sumInt_nil]
    simp only [view, hn]
  | cons b r ih =>
    intro σ n hall hn
    have hbs : b.header.isSome = true := hall b (by simp)
    cases hb : b.header with
    | none => rw [hb] at hbs; cases hbs
    | some h =>
      obtain ⟨σ1, hv1, hg⟩ := genB_spec m b h hb σ n hn
      have hnb : ({ b with header := some (h.setS "BundleSequenceNumber" (numericField n 4)),
                           checks := numberChecks 1 b.checks, returns := numberReturns 1 b.returns } : Bundle Vals) = numberB n b h := rfl
      simp only [forMapE, buildBundles, hb, hg, hnb]
      cases hval : bundleValidate (numberB n b h) with
      | some fld => exact Or.inl ⟨_, rfl, rfl⟩
      | none =>
        cases hbb : bundleBuild m (numberB n b h) with
        | error e => exact Or.inl ⟨_, rfl, rfl⟩
        | ok b2 =>
          dsimp only
          have hn1 : σ1.get "bundleSequenceNumber" = ((n + 1 : Nat) : Int) := by
            have := congrArg View.bsn hv1
            simp only [view] at this
            rw [this]; omega
          have hb2 := bundleBuild_ok m _ _ hbb
          rcases ih σ1 (n + 1) (fun x hx => hall x (by simp [hx])) hn1 with ⟨e, h1, h2⟩ | ⟨bs, σ2, h1, h2, h3, h4⟩
          · exact Or.inl ⟨e, by rw [h1], by rw [h2]⟩
          · refine Or.inr ⟨b2 :: bs, σ2, by rw [h1], by rw [h2], by simp [h3], ?_⟩
            have hi : itemsB b2 = numberChecks 1 b.checks ++ numberReturns 1 b.returns := by
              rw [hb2]; rfl
            obtain ⟨c1, c2, c3⟩ := numberChecks_facts b.checks 1
            obtain ⟨r1, r2, r3⟩ := numberReturns_facts b.returns 1
            have a1 : ((itemsB b2).length : Int) = ((itemsB b).length : Int) := by
              rw [hi]; simp only [itemsB, List.length_append, c1, r1]
            have a2 : amountOf (itemsB b2) = amountOf (itemsB b) := by
              rw [hi]; unfold amountOf at *; simp only [itemsB, List.map_append, sumInt_append, c2, r2]
            have a3 : imagesOf (itemsB b2) = imagesOf (itemsB b) := by
              rw [hi]; unfold imagesOf at *; simp only [itemsB, List.map_append, sumInt_append, c3, r3]
            rw [h4, hv1]
            apply view_ext <;> simp only [List.flatMap_cons, List.length_append, List.length_cons]
            · omega
            · omega
            · unfold amountOf at *; simp only [List.map_append, sumInt_append]; omega
            · unfold imagesOf at *; simp only [List.map_append, sumInt_append]; omega

/-! ### the whole method -/

/-- the locals of `CashLetter.build` before the bundle loop -/
def σ0 (cl : CashLetter Vals) : Env :=
  let σ : Env := []
  let σ := σ.set "cashLetterBundleCount" (cl.bundles.length : Int)
  let σ := σ.set "cashLetterItemsCount" (0 : Int)
  let σ := σ.set "cashLetterTotalAmount" (0 : Int)
  let σ := σ.set "cashLetterImagesCount" (0 : Int)
  let σ := σ.set "bundleSequenceNumber" (1 : Int)
  let σ := σ.set "creditIndicator" (0 : Int)
  let σ := if decide ((cl.creditItems.length : Int) > (0 : Int)) then (
    let σ := σ.set "cashLetterItemsCount" ((σ.get "cashLetterItemsCount") + (cl.creditItems.length : Int))
    let σ := σ.set "creditIndicator" (1 : Int)
    σ) else σ
  σ

theorem view_σ0 (cl : CashLetter Vals) :
    view (σ0 cl) = ⟨1, (cl.bundles.length : Int), if cl.creditItems.isEmpty then 0 else 1, (cl.creditItems.length : Int), 0, 0⟩ := by
  unfold σ0
  cases cl.creditItems with
  | nil => rfl
  | cons a r =>
    have : decide (((a :: r).length : Int) > 0) = true := by simp
    simp only [this, if_true]
    apply view_ext <;> simp [view]

/-- `CashLetter.build` as translated, with the body of its bundle loop named -/
def staged (m : Model) (cl : CashLetter Vals) : Except BErr (CashLetter Vals) :=
    if cl.header.isNone then .error (ErrClass.plain, "nil CashLetterHeader") else
    match vOpt m Kind.cashLetterHeader (cl.header) with
    | some e => .error e
    | none =>
    match firstErr (fun b => if b.header.isNone then some (ErrClass.cashLetter, "Bundles") else none) cl.bundles with
    | some e => .error e
    | none =>
    let σ := σ0 cl
    match forMapE cl.bundles σ (genB m) with
    | .error e => .error e
    | .ok (bundles, σ) =>
    let cl := { cl with bundles := bundles }
    let clc := newRec m Kind.cashLetterControl
    let clc := clc.setI "CashLetterBundleCount" (σ.get "cashLetterBundleCount")
    let clc := clc.setI "CashLetterItemsCount" (σ.get "cashLetterItemsCount")
    let clc := clc.setI "CashLetterTotalAmount" (σ.get "cashLetterTotalAmount")
    let clc := clc.setI "CashLetterImagesCount" (σ.get "cashLetterImagesCount")
    let clc := if (cl.control.isSome && (!(((cl.control).map (·.s "ECEInstitutionName")).getD []).isEmpty)) then (
    let clc := clc.setS "ECEInstitutionName" (((cl.control).map (·.s "ECEInstitutionName")).getD [])
    clc) else (
    let clc := clc.setS "ECEInstitutionName" (((cl.header).map (·.s "ECEInstitutionRoutingNumber")).getD [])
    clc)
    let clc := clc.setI "CreditTotalIndicator" (σ.get "creditIndicator")
    let clc := if cl.control.isSome then (
    let clc := clc.setS "ID" (((cl.control).map (·.s "ID")).getD [])
    let clc := if (!(((cl.control).map (·.d "SettlementDate")).getD Date.zero).isZero) then (
        let clc := clc.setD "SettlementDate" (((cl.control).map (·.d "SettlementDate")).getD Date.zero)
        clc) else (
        clc)
    clc) else (
    clc)
    let cl := { cl with control := some clc }
    .ok cl


theorem gen_eq_staged (m : Model) (cl : CashLetter Vals) : Gen.CL.build m cl = staged m cl := rfl

theorem firstErr_any (l : List (Bundle Vals)) :
    firstErr (fun b => if b.header.isNone then some (ErrClass.cashLetter, "Bundles") else none) l =
      if l.any (fun b => b.header.isNone) then some (ErrClass.cashLetter, "Bundles") else none := by
  induction l with
  | nil => rfl
  | cons b r ih =>
    simp only [firstErr, List.any_cons]
    by_cases hb : b.header.isNone = true
    · simp only [hb, if_true, Bool.true_or]
    · simp only [hb, Bool.false_eq_true, if_false, Bool.false_or, ih]

theorem all_some_of_not_any (l : List (Bundle Vals)) (h : l.any (fun b => b.header.isNone) = false) :
    ∀ b ∈ l, b.header.isSome = true := by
  intro b hb
  have := List.any_eq_false.mp h b hb
  cases hh : b.header <;> simp_all

/-- every statement of the translated method had a recognised shape -/
theorem clbuild_recognised : Gen.CL.recognised = true := by decide

/-- **`CashLetter.build` as translated from cashLetter.go is the build model**, for every cash letter -/
theorem clbuild_eq_model (m : Model) (cl : CashLetter Vals) : Gen.CL.build m cl = cashLetterBuild m cl := by
  rw [gen_eq_staged]
  unfold staged cashLetterBuild
  cases hh : cl.header with
  | none => rfl
  | some h =>
    simp only [Option.isNone_some, Bool.false_eq_true, if_false, vOpt]
    cases vErr m Kind.cashLetterHeader h with
    | some e => rfl
    | none =>
      simp only [firstErr_any]
      by_cases hany : cl.bundles.any (fun b => b.header.isNone) = true
      · simp only [hany, if_true]
      · have hany' : cl.bundles.any (fun b => b.header.isNone) = false := by simpa using hany
        simp only [hany', Bool.false_eq_true, if_false]
        have hb0 : (σ0 cl).get "bundleSequenceNumber" = ((1 : Nat) : Int) := by
          have := congrArg View.bsn (view_σ0 cl)
          simp only [view] at this
          rw [this]; rfl
        rcases bundlesLoop m cl.bundles (σ0 cl) 1 (all_some_of_not_any _ hany') hb0 with ⟨e, h1, h2⟩ | ⟨bs, σ', h1, h2, h3, h4⟩
        · rw [h1, h2]
        · rw [h1, h2]
          dsimp only
          rw [view_σ0] at h4
          have g1 : σ'.get "cashLetterBundleCount" = (bs.length : Int) := by
            have := congrArg View.bcount h4
            simp only [view] at this
            rw [this, h3]
          have g2 : σ'.get "cashLetterItemsCount" =
              ((bs.flatMap (fun b => b.checks ++ b.returns)).length : Int) + (cl.creditItems.length : Int) := by
            have := congrArg View.items h4
            simp only [view] at this
            rw [this]
            show _ + ((bs.flatMap (fun b => b.checks ++ b.returns)).length : Int) = _
            omega
          have g3 : σ'.get "cashLetterTotalAmount" =
              sumInt ((bs.flatMap (fun b => b.checks ++ b.returns)).map (fun i => i.detail.i "ItemAmount")) := by
            have := congrArg View.amount h4
            simp only [view] at this
            rw [this]
            show 0 + sumInt ((bs.flatMap (fun b => b.checks ++ b.returns)).map (fun i => i.detail.i "ItemAmount")) = _
            omega
          have g4 : σ'.get "cashLetterImagesCount" =
              sumInt ((bs.flatMap (fun b => b.checks ++ b.returns)).map (fun i => (i.ivDetail.length : Int))) := by
            have := congrArg View.images h4
            simp only [view] at this
            rw [this]
            show 0 + sumInt ((bs.flatMap (fun b => b.checks ++ b.returns)).map (fun i => (i.ivDetail.length : Int))) = _
            omega
          have g5 : σ'.get "creditIndicator" = if cl.creditItems.isEmpty then 0 else 1 := by
            have := congrArg View.credit h4
            simp only [view] at this
            rw [this]
          rw [g1, g2, g3, g4, g5]
          cases hc : cl.control with
          | none => simp [newRec]
          | some old =>
            by_cases hz : (old.d "SettlementDate").isZero = true <;>
              by_cases he : (old.s "ECEInstitutionName").isEmpty = true <;> simp [newRec, hz, he]

end Icl.ClBuildEq
