/-
C01, record level and end to end (ASCII): the per-record premise of `C01_write_read_*` - a rendered line
decodes back to its record - is a theorem for every canonical record of each of the 21 record kinds,
fixed width or with variable sections (27, 34, 52), on the layouts REGENERATED from /repo:
`gen_kindOK` checks by `decide`, per kind, that every slice of the regenerated `Parse()` is the span of the
field the regenerated `String()` writes, decoded by the inverse of the getter's converter.  Hence
`C01_canonical_lp_ascii` / `C01_canonical_nl_ascii`: a canonical file the model writer accepts reads back
as itself.  What "canonical" means is explicit (`RecCanon`, `CanonFile`): fields fit their column, no
leading/trailing blanks, non-negative numbers that fit, valid dates, announced lengths = actual lengths,
image data that is not base64 text, members stored untrimmed by `Parse()` (`rawDsts`) at full width, the
record valid.  The driver evaluates the decidable part of `RecCanon` on every generated record (non-vacuity).
-/
import IclModel.Lemmas.RecCanon
import IclModel.Lemmas.RecCanonE
import IclModel.GenModel
import IclModel.Props.C01
namespace Icl.C01
open Icl Icl.C04

def layoutOf (ls : List RecLayout) (k : Kind) : RecLayout := (ls.find? (fun L => L.name == k.goName)).getD default

def kindOKL (ls : List RecLayout) (k : Kind) : Bool :=
  let L := layoutOf ls k
  let fixed := LayoutOK L && TypeFirst L.write && decide (80 ≤ (endOff L.write ⟨0, []⟩).c) &&
    k != .ivData && k != .cdAddB && k != .rdAddC
  let key := LayoutOK L && TypeFirst L.write && (k == .cdAddB || k == .rdAddC) &&
    endOff L.write ⟨0, []⟩ == ⟨46, ["LengthImageReferenceKey"]⟩ &&
    (spans L.write ⟨0, []⟩).any (fun p => isLenField p ⟨18, []⟩ 4 "LengthImageReferenceKey") &&
    (varLens L.write).contains "LengthImageReferenceKey" &&
    !(rawDsts L.parse).contains "LengthImageReferenceKey" &&
    (assignDsts L.parse).contains "LengthImageReferenceKey"
  let iv := LayoutOK L && TypeFirst L.write && k == .ivData &&
    endOff L.write ⟨0, []⟩ == ⟨117, ["LengthImageReferenceKey", "LengthDigitalSignature", "LengthImageData"]⟩ &&
    (spans L.write ⟨0, []⟩).any (fun p => isLenField p ⟨101, []⟩ 4 "LengthImageReferenceKey") &&
    (spans L.write ⟨0, []⟩).any (fun p => isLenField p ⟨105, ["LengthImageReferenceKey"]⟩ 5 "LengthDigitalSignature") &&
    (spans L.write ⟨0, []⟩).any (fun p => isLenField p ⟨110, ["LengthImageReferenceKey", "LengthDigitalSignature"]⟩ 7 "LengthImageData") &&
    (varLens L.write).contains "LengthImageReferenceKey" &&
    (varLens L.write).contains "LengthDigitalSignature" &&
    (varLens L.write).contains "LengthImageData" &&
    !(rawDsts L.parse).contains "LengthImageReferenceKey" &&
    !(rawDsts L.parse).contains "LengthDigitalSignature" &&
    !(rawDsts L.parse).contains "LengthImageData" &&
    (assignDsts L.parse).contains "LengthImageReferenceKey" &&
    (assignDsts L.parse).contains "LengthDigitalSignature" &&
    (assignDsts L.parse).contains "LengthImageData"
  fixed || key || iv

theorem kindOK_eq (m : Model) (k : Kind) : KindOK m k = kindOKL m.layouts k := rfl

set_option maxRecDepth 20000 in
/-- **the regenerated layouts invert**: for each of the 21 record kinds, `Parse()` as translated from /repo reads
exactly the columns `String()` as translated from /repo writes, with the inverse decoder -/
theorem gen_kindOK' (k : Kind) : kindOKL Gen.all k = true := by
  cases k <;> decide

theorem gen_kindOK (frb : Bool) (now : Date) (k : Kind) : KindOK (genModel frb now) k = true := by
  rw [kindOK_eq]; exact gen_kindOK' k

/-- **C01, record level** (regenerated layouts, ASCII): the line rendered for a canonical record of any kind
is a line of that kind, passes the reader's length test, and decodes and validates back to the record -/
theorem C01_record_ascii (frb : Bool) (now : Date) (e : Enc) (he : e.ebcdic = false) (k : Kind) (v : Vals)
    (hc : RecCanon (genModel frb now) k v) :
    RecOK (genModel frb now) e (fun k v => lineOf (genModel frb now) k (some v)) k v :=
  recOK_ascii_all _ e he k (gen_kindOK frb now k) v hc


/-! ### whole files -/

/-- a file in canonical form -/
structure CanonFile (m : Model) (f : File Vals) : Prop where
  hdr : RecCanon m .fileHeader f.header
  /-- the file control is parsed into the reader's zero-valued control record -/
  ctl : RecCanonFrom m .fileControl {} f.control
  cashLetters : ∀ cl ∈ f.cashLetters, CanonCashLetter m cl

/-- file header and file control are exactly 80 columns, type code first -/
def EndsOK (m : Model) : Bool :=
  [Kind.fileHeader, Kind.fileControl].all (fun k =>
    LayoutOK (m.layout k) && TypeFirst (m.layout k).write && endOff (m.layout k).write ⟨0, []⟩ == ⟨80, []⟩) &&
  (m.layout .fileHeader).parse.any usesRunes

theorem ends_facts (m : Model) (k : Kind) (v0 v : Vals) (hc : RecCanonFrom m k v0 v) (hl : LayoutOK (m.layout k) = true)
    (htf : TypeFirst (m.layout k).write = true) (hE : endOff (m.layout k).write ⟨0, []⟩ = ⟨80, []⟩) :
    kindOfLine (lineOf m k (some v)) = some k ∧ (lineOf m k (some v)).length = 80 := by
  obtain ⟨rest, hr⟩ := render_typeFirst m.b64 (m.layout k).write v htf
  refine ⟨?_, ?_⟩
  · simp only [lineOf, hr, hc.typeSet]; exact kindOfLine_tag k rest
  · have hl' := hl
    simp only [LayoutOK, Bool.and_eq_true] at hl'
    have hsym : ∀ g ∈ (m.layout k).write, LenIsSym m.b64 g v := lenIsSym_all m.b64 _ _ _ v hc.canon
    have hE' := endOff_val m.b64 v (canon_typeSet m k v0 v hc) (m.layout k).write ⟨0, []⟩ hl'.1 hsym
    rw [hE] at hE'
    simp only [SymOff.val, sumW, Nat.add_zero, Nat.zero_add] at hE'
    simp only [lineOf]; omega

theorem tag_nonempty (k : Kind) : k.tag.isEmpty = false := by cases k <;> rfl

theorem bodyLn_ascii (m : Model) (e : Enc) (he : e.ebcdic = false) :
    bodyLn m e = fun k v => lineOf m k (some v) := by
  funext k v; simp [bodyLn, bodyOf, he]

/-- **canonical files meet the premise of the tree-level theorem** (ASCII) -/
theorem fileOK_of_canon (m : Model) (e : Enc) (he : e.ebcdic = false) (hK : ∀ k, KindOK m k = true) (hEnds : EndsOK m = true)
    (f : File Vals) (h : CanonFile m f) : FileOK m e (bodyLn m e) f := by
  rw [bodyLn_ascii m e he]
  simp only [EndsOK, List.all_cons, List.all_nil, Bool.and_true, Bool.and_eq_true, beq_iff_eq, List.any_eq_true] at hEnds
  obtain ⟨⟨⟨⟨hl1, ht1⟩, hE1⟩, ⟨⟨hl2, ht2⟩, hE2⟩⟩, ⟨st, hst, hur⟩⟩ := hEnds
  obtain ⟨hk1, hn1⟩ := ends_facts m .fileHeader _ _ h.hdr hl1 ht1 hE1
  obtain ⟨hk2, hn2⟩ := ends_facts m .fileControl _ _ h.ctl hl2 ht2 hE2
  have hp1 := parse_canon m .fileHeader hl1 _ h.hdr
  have hp2 := parse_canon_from m .fileControl hl2 _ _ h.ctl
  refine ⟨hk1, by omega, ?_, ?_, hk2, by omega, ?_, ?_, ?_⟩
  · simp only [he, Bool.false_eq_true, if_false, id]
    have := h.hdr.runes st hst hur
    simp only [lineOf] at hn1 ⊢
    rw [this, hn1]
  · simp only [he, Bool.false_eq_true, if_false, id]
    exact hp1
  · simp only [he, Bool.false_eq_true, if_false, id]
    exact hp2
  · rw [h.ctl.typeSet]; exact tag_nonempty _
  · intro cl hcl
    exact cashLetterOK_of_canon m e he hK cl (h.cashLetters cl hcl)

theorem treeWF_of_canon (m : Model) (f : File Vals) (h : CanonFile m f) : TreeWF f := by
  intro cl hcl
  have hc := h.cashLetters cl hcl
  obtain ⟨x, hx, _⟩ := hc.hdr
  obtain ⟨y, hy, _⟩ := hc.ctl
  refine ⟨⟨x, y, hx, hy⟩, hc.rnsSome, ?_⟩
  intro b hb
  obtain ⟨bx, hbx, _⟩ := (hc.bundles b hb).hdr
  obtain ⟨by', hby, _⟩ := (hc.bundles b hb).ctl
  exact ⟨bx, by', hbx, hby⟩

set_option maxRecDepth 20000 in
theorem gen_endsOK' : [Kind.fileHeader, Kind.fileControl].all (fun k =>
    LayoutOK (layoutOf Gen.all k) && TypeFirst (layoutOf Gen.all k).write && endOff (layoutOf Gen.all k).write ⟨0, []⟩ == ⟨80, []⟩) &&
  (layoutOf Gen.all .fileHeader).parse.any usesRunes = true := by decide

theorem gen_endsOK (frb : Bool) (now : Date) : EndsOK (genModel frb now) = true := gen_endsOK'

/-- **C01, end to end on the regenerated model, ASCII, length-prefixed**: a canonical file that the model writer
accepts reads back as itself - every record of every kind, arbitrary binary image and signature bytes included -/
theorem C01_canonical_lp_ascii (frb : Bool) (now : Date) (e : Enc) (hlp : e.lp = true) (he : e.ebcdic = false)
    (f : File Vals) (bytes : Bytes) (hc : CanonFile (genModel frb now) f)
    (hw : writeFile (genModel frb now) e f = some bytes) :
    readFile (genModel frb now) e bytes = (f, none) :=
  C01_write_read_lp_ascii _ e f bytes hlp he hw (treeWF_of_canon _ f hc)
    (fileOK_of_canon _ e he (gen_kindOK frb now) (gen_endsOK frb now) f hc)

/-- **C01, end to end on the regenerated model, ASCII, newline framing**: the same for files none of whose records
holds a line feed or ends in a carriage return (which newline framing cannot carry) -/
theorem C01_canonical_nl_ascii (frb : Bool) (now : Date) (e : Enc) (hlp : e.lp = false) (he : e.ebcdic = false)
    (f : File Vals) (bytes : Bytes) (hc : CanonFile (genModel frb now) f)
    (hw : writeFile (genModel frb now) e f = some bytes)
    (hno : ∀ l ∈ fileLines (bodyLn (genModel frb now) e) f, (0x0A : UInt8) ∉ l)
    (hcr : ∀ l ∈ fileLines (bodyLn (genModel frb now) e) f, dropCR l = l) :
    readFile (genModel frb now) e bytes = (f, none) :=
  C01_write_read_nl _ e f bytes hlp hw (treeWF_of_canon _ f hc)
    (fileOK_of_canon _ e he (gen_kindOK frb now) (gen_endsOK frb now) f hc) hno hcr


/-! ### EBCDIC -/

/-- canonical and rendered as text the code page carries (record 52: everything but the image bytes, which the
EBCDIC writer emits raw) -/
def CanonSafe (m : Model) (k : Kind) (v : Vals) : Prop :=
  RecCanon m k v ∧ (if k = .ivData then IvSafe m v else (lineOf m k (some v)).all (safeB m.cm) = true)

structure CanonFileE (m : Model) (f : File Vals) : Prop where
  hdr : RecCanon m .fileHeader f.header
  ctl : RecCanonFrom m .fileControl {} f.control
  hdrSafe : (lineOf m .fileHeader (some f.header)).all (safeB m.cm) = true
  ctlSafe : (lineOf m .fileControl (some f.control)).all (safeB m.cm) = true
  cashLetters : ∀ cl ∈ f.cashLetters, CashLetterAll m (CanonSafe m) cl

theorem recOK_ebcdic_all (m : Model) (e : Enc) (he : e.ebcdic = true) (hd : DigitsOK m.cm = true)
    (hK : ∀ k, KindOK m k = true) (hIv : IvKindE m = true) (k : Kind) (v : Vals) (h : CanonSafe m k v) :
    RecOK m e (bodyLn m e) k v := by
  obtain ⟨hc, hs⟩ := h
  by_cases hk : k = .ivData
  · subst hk
    simp only [if_true] at hs
    exact recOK_ebcdic_iv m e he hd hIv v hc hs
  · simp only [hk, if_false] at hs
    have := hK k
    simp only [KindOK, Bool.or_eq_true] at this
    rcases this with (hf | hf) | hf
    · exact recOK_ebcdic m e he hd k hf v hc hs
    · exact recOK_ebcdic_key m e he hd k hf v hc hs
    · simp only [IvKind, Bool.and_eq_true, beq_iff_eq] at hf
      exact absurd hf.1.1.1.1.1.1.1.1.1.1.1.1.1.2 hk

theorem fileOK_of_canonE (m : Model) (e : Enc) (he : e.ebcdic = true) (hd : DigitsOK m.cm = true)
    (hK : ∀ k, KindOK m k = true) (hIv : IvKindE m = true) (hEnds : EndsOK m = true)
    (f : File Vals) (h : CanonFileE m f) : FileOK m e (bodyLn m e) f := by
  simp only [EndsOK, List.all_cons, List.all_nil, Bool.and_true, Bool.and_eq_true, beq_iff_eq, List.any_eq_true] at hEnds
  obtain ⟨⟨⟨⟨hl1, ht1⟩, hE1⟩, ⟨⟨hl2, ht2⟩, hE2⟩⟩, ⟨st, hst, hur⟩⟩ := hEnds
  obtain ⟨hk1, hn1⟩ := ends_facts m .fileHeader _ _ h.hdr hl1 ht1 hE1
  obtain ⟨hk2, hn2⟩ := ends_facts m .fileControl _ _ h.ctl hl2 ht2 hE2
  have hp1 := parse_canon m .fileHeader hl1 _ h.hdr
  have hp2 := parse_canon_from m .fileControl hl2 _ _ h.ctl
  have hb1 := bodyLn_ebcdic m e he .fileHeader (by simp) f.header h.hdrSafe
  have hb2 := bodyLn_ebcdic m e he .fileControl (by simp) f.control h.ctlSafe
  have hd1 := decode_enc m.cm _ h.hdrSafe
  have hd2 := decode_enc m.cm _ h.ctlSafe
  obtain ⟨rest1, hr1⟩ := render_typeFirst m.b64 (m.layout .fileHeader).write f.header ht1
  obtain ⟨rest2, hr2⟩ := render_typeFirst m.b64 (m.layout .fileControl).write f.control ht2
  have hkE1 : kindOfLine (bodyLn m e .fileHeader f.header) = some .fileHeader := by
    rw [hb1]; simp only [lineOf, hr1, h.hdr.typeSet, List.map_append, tag_enc m.cm hd .fileHeader]
    exact kindOfLine_ebcTag .fileHeader _
  have hkE2 : kindOfLine (bodyLn m e .fileControl f.control) = some .fileControl := by
    rw [hb2]; simp only [lineOf, hr2, h.ctl.typeSet, List.map_append, tag_enc m.cm hd .fileControl]
    exact kindOfLine_ebcTag .fileControl _
  refine ⟨hkE1, by rw [hb1, List.length_map]; omega, ?_, ?_, hkE2, by rw [hb2, List.length_map]; omega, ?_, ?_, ?_⟩
  · simp only [he, if_true, hb1, hd1]
    have := h.hdr.runes st hst hur
    simp only [lineOf] at hn1 ⊢
    rw [this, hn1]
  · simp only [he, if_true, hb1, hd1]
    exact hp1
  · simp only [he, if_true, hb2, hd2]
    exact hp2
  · rw [h.ctl.typeSet]; exact tag_nonempty _
  · intro cl hcl
    exact cashLetterOK_of_all m e _ (CanonSafe m) (recOK_ebcdic_all m e he hd hK hIv) cl (h.cashLetters cl hcl)

theorem treeWF_of_canonE (m : Model) (f : File Vals) (h : CanonFileE m f) : TreeWF f := by
  intro cl hcl
  have hc := h.cashLetters cl hcl
  obtain ⟨x, hx, _⟩ := hc.hdr
  obtain ⟨y, hy, _⟩ := hc.ctl
  refine ⟨⟨x, y, hx, hy⟩, hc.rnsSome, ?_⟩
  intro b hb
  obtain ⟨bx, hbx, _⟩ := (hc.bundles b hb).hdr
  obtain ⟨by', hby, _⟩ := (hc.bundles b hb).ctl
  exact ⟨bx, by', hbx, hby⟩

def ivKindEL (ls : List RecLayout) : Bool :=
  let L := layoutOf ls .ivData
  kindOKL ls .ivData && !(decide (80 ≤ (endOff L.write ⟨0, []⟩).c) && false) &&
  (match L.write.reverse with
   | last :: initR => last.imageOnly && isVarConv last.conv && last.lenField == "LengthImageData" && initR.all (fun f => !f.imageOnly)
   | [] => false) &&
  L.parse.all (fun st => !usesRunes st) && flagsB L.write L.parse

set_option maxRecDepth 20000 in
theorem gen_ivKindE' : ivKindEL Gen.all = true := by decide

theorem gen_ivKindE (frb : Bool) (now : Date) : IvKindE (genModel frb now) = true := by
  have h := gen_ivKindE'
  simp only [ivKindEL, Bool.and_eq_true] at h
  obtain ⟨⟨⟨⟨hk, _⟩, h2⟩, h3⟩, h4⟩ := h
  have hko : KindOK (genModel frb now) .ivData = true := gen_kindOK frb now .ivData
  have hiv : IvKind (genModel frb now) .ivData = true := by
    simp only [KindOK, Bool.or_eq_true] at hko
    rcases hko with (hf | hf) | hf
    · simp [FixedKind] at hf
    · simp [KeyKind] at hf
    · exact hf
  simp only [IvKindE, Bool.and_eq_true]
  exact ⟨⟨⟨hiv, h2⟩, h3⟩, h4⟩

set_option maxRecDepth 20000 in
theorem gen_digitsOK : DigitsOK { dec := Gen.cp037Dec, repl := Gen.cp037Repl } = true := by decide

/-- the EBCDIC body of a safe canonical record is as long as its ASCII rendering (the prefix is exact) -/
theorem body_length_safe (m : Model) (e : Enc) (he : e.ebcdic = true) (hIv : IvKindE m = true) (k : Kind) (v : Vals)
    (h : CanonSafe m k v) : (bodyLn m e k v).length = (lineOf m k (some v)).length := by
  obtain ⟨hc, hs⟩ := h
  by_cases hk : k = .ivData
  · subst hk
    simp only [if_true] at hs
    -- from the carrier theorem: the body passes the reader's exact-length test, and has the rendering's length
    simp only [IvKindE, Bool.and_eq_true] at hIv
    obtain ⟨⟨⟨_, hlast⟩, _⟩, _⟩ := hIv
    cases hrev : (m.layout .ivData).write.reverse with
    | nil => simp [hrev] at hlast
    | cons last initR =>
      simp only [hrev, Bool.and_eq_true, beq_iff_eq] at hlast
      obtain ⟨⟨⟨hli, _⟩, _⟩, hni⟩ := hlast
      have hws : (m.layout .ivData).write = initR.reverse ++ [last] := by
        have := congrArg List.reverse hrev
        simpa using this
      have hniI : initR.reverse.all (fun f => !f.imageOnly) = true := by
        simp only [List.all_eq_true, List.mem_reverse] at hni ⊢; exact hni
      have htext : render m.b64 (m.layout .ivData).write false v = render m.b64 initR.reverse true v := by
        rw [hws, render_append, render_noimg m.b64 _ v false hniI]
        simp [render, hli]
      have hfull : render m.b64 (m.layout .ivData).write true v = render m.b64 initR.reverse true v ++ renderField m.b64 last v := by
        rw [hws, render_append]; simp [render]
      have hsafe : (render m.b64 initR.reverse true v).all (safeB m.cm) = true := by
        have := hs; unfold IvSafe at this; rw [htext] at this; exact this
      have hfil : ((m.layout .ivData).write.filter (·.imageOnly)) = [last] := by
        rw [hws, List.filter_append]
        have : initR.reverse.filter (·.imageOnly) = [] := by
          simp only [List.filter_eq_nil_iff, List.mem_reverse]
          intro a ha
          simp only [List.all_eq_true, Bool.not_eq_true'] at hni
          simp [hni a ha]
        simp [this, hli]
      simp only [bodyLn, he, bodyOf, if_true, htext, encode_ascii _ _ (safe_isAscii m.cm _ hsafe), hfil,
        Option.map_some, Option.getD_some, List.flatMap_cons, List.flatMap_nil, List.append_nil, lineOf, hfull,
        List.length_append, List.length_map]
  · simp only [hk, if_false] at hs
    rw [bodyLn_ebcdic m e he k hk v hs, List.length_map]

theorem hbody_of_canonE (m : Model) (e : Enc) (he : e.ebcdic = true) (hIv : IvKindE m = true) (f : File Vals)
    (h : CanonFileE m f) :
    ∀ kr ∈ f.flatten, ∀ v, kr.2 = some v → (bodyLn m e kr.1 v).length = (lineOf m kr.1 (some v)).length := by
  intro kr hkr v hv
  rw [flatten_eq_fileRecs m e f (treeWF_of_canonE m f h)] at hkr
  simp only [List.mem_append, List.mem_singleton, List.mem_map, List.cons_append, List.nil_append, List.mem_cons] at hkr
  rcases hkr with hkr | ⟨r, hr, hru⟩ | hkr | hkr
  · subst hkr
    simp only [Option.some.injEq] at hv; subst hv
    rw [bodyLn_ebcdic m e he .fileHeader (by simp) _ h.hdrSafe, List.length_map]
  · have hP := recP_flatMap (CanonSafe m) f.cashLetters (clRecs (bodyLn m e))
      (fun cl hcl => recP_cashLetter (bodyLn m e) (CanonSafe m) m cl (h.cashLetters cl hcl)) r hr
    subst hru
    simp only [unrec, Option.some.injEq] at hv
    subst hv
    exact body_length_safe m e he hIv _ _ hP
  · subst hkr
    simp only [Option.some.injEq] at hv; subst hv
    rw [bodyLn_ebcdic m e he .fileControl (by simp) _ h.ctlSafe, List.length_map]
  · cases hkr

/-- **C01, end to end on the regenerated model, EBCDIC, length-prefixed**: a canonical file of text the regenerated
CP037 table carries (record 52: all but the image bytes, which travel raw and are arbitrary), accepted by the model
writer, reads back as itself -/
theorem C01_canonical_lp_ebcdic (frb : Bool) (now : Date) (e : Enc) (hlp : e.lp = true) (he : e.ebcdic = true)
    (f : File Vals) (bytes : Bytes) (hc : CanonFileE (genModel frb now) f)
    (hw : writeFile (genModel frb now) e f = some bytes) :
    readFile (genModel frb now) e bytes = (f, none) :=
  C01_write_read_lp _ e f bytes hlp hw (treeWF_of_canonE _ f hc) (hbody_of_canonE _ e he (gen_ivKindE frb now) f hc)
    (fileOK_of_canonE _ e he gen_digitsOK (gen_kindOK frb now) (gen_ivKindE frb now) (gen_endsOK frb now) f hc)


/-- the same under newline framing, for files none of whose EBCDIC records holds the byte 0x0A or ends in 0x0D -/
theorem C01_canonical_nl_ebcdic (frb : Bool) (now : Date) (e : Enc) (hlp : e.lp = false) (he : e.ebcdic = true)
    (f : File Vals) (bytes : Bytes) (hc : CanonFileE (genModel frb now) f)
    (hw : writeFile (genModel frb now) e f = some bytes)
    (hno : ∀ l ∈ fileLines (bodyLn (genModel frb now) e) f, (0x0A : UInt8) ∉ l)
    (hcr : ∀ l ∈ fileLines (bodyLn (genModel frb now) e) f, dropCR l = l) :
    readFile (genModel frb now) e bytes = (f, none) :=
  C01_write_read_nl _ e f bytes hlp hw (treeWF_of_canonE _ f hc)
    (fileOK_of_canonE _ e he gen_digitsOK (gen_kindOK frb now) (gen_ivKindE frb now) (gen_endsOK frb now) f hc) hno hcr

end Icl.C01
