/-
C07 — building a cash letter numbers bundles, items and addenda consistently.

Theorems about the model build loops (`numberChecks`, `numberReturns`, `buildBundles` in Build.lean;
tied to cashLetter.go by the `buildcl` correspondence stream on cash letters with many addenda and
mixed blank / supplied sequence numbers):
  * every numbered addendum list carries 1, 2, 3, … (up to the maximum the bundle validation allows);
  * every addendum that references its item's sequence number is stamped with the SAME integer its
    item is stamped with;
  * a supplied item sequence number keeps its numeric value;
  * bundles are numbered 1..n.
Uniqueness of FILLED-IN numbers does not hold (a filled value can collide with a later supplied
one): `filled_can_collide` exhibits the witness; recorded as a finding.
-/
import IclModel.Build
namespace Icl.C07
open Icl

theorem recNums_iota (limit n : Nat) (h : n ≤ limit) : recNums limit n = (List.range n).map (fun i => ((i + 1 : Nat) : Int)) := by
  unfold recNums
  apply List.map_congr_left
  intro i hi
  have : i < n := by simpa using hi
  have : i % limit = i := Nat.mod_eq_of_lt (by omega)
  simp [this]

theorem zipSet_length (vs : List Vals) (f : Vals → Int → Vals) (ns : List Int) (h : ns.length = vs.length) :
    (zipSet vs f ns).length = vs.length := by
  simp [zipSet, h]

/-- what "numbered consistently with sequence number `s`" means for a check item -/
def CheckNumbered (s : Int) (it : Item Vals) : Prop :=
  it.detail.s "EceInstitutionItemSequenceNumber" = numericField s 15 ∧
  (∀ i (h : i < it.addA.length), (it.addA[i]).i "RecordNumber" = ((i % 9 + 1 : Nat) : Int) ∧
      (it.addA[i]).s "BOFDItemSequenceNumber" = numericField s 15) ∧
  (∀ i (h : i < it.addC.length), (it.addC[i]).i "RecordNumber" = ((i % 99 + 1 : Nat) : Int) ∧
      (it.addC[i]).s "EndorsingBankItemSequenceNumber" = itoa s)

@[simp] theorem setI_i (v : Vals) (k k' : String) (x : Int) : (v.setI k x).i k' = if k' = k then x else v.i k' := rfl
@[simp] theorem setS_s (v : Vals) (k k' : String) (x : Bytes) : (v.setS k x).s k' = if k' = k then x else v.s k' := rfl
@[simp] theorem setI_s (v : Vals) (k k' : String) (x : Int) : (v.setI k x).s k' = v.s k' := rfl
@[simp] theorem setS_i (v : Vals) (k k' : String) (x : Bytes) : (v.setS k x).i k' = v.i k' := rfl

theorem zipSet_getElem (vs : List Vals) (f : Vals → Int → Vals) (limit : Nat) (i : Nat)
    (h : i < (zipSet vs f (recNums limit vs.length)).length) (hv : i < vs.length) :
    (zipSet vs f (recNums limit vs.length))[i] = f vs[i] ((i % limit + 1 : Nat) : Int) := by
  simp [zipSet, recNums]

/-- **check items**: each built item is numbered consistently with `seqOf` of the running counter, and
the counter continues from that number -/
theorem numberChecks_spec (counter : Int) (items : List (Item Vals)) :
    (numberChecks counter items).length = items.length ∧
    ∀ i (h : i < items.length) (h' : i < (numberChecks counter items).length),
      ∃ s, CheckNumbered s ((numberChecks counter items)[i]) ∧
        (¬ (items[i].detail.s "EceInstitutionItemSequenceNumber").isEmpty →
          s = parseNum (items[i].detail.s "EceInstitutionItemSequenceNumber")) := by
  induction items generalizing counter with
  | nil => simp [numberChecks]
  | cons cd r ih =>
    have ihr := ih (seqOf counter cd + 1)
    constructor
    · simp only [numberChecks, List.length_cons, ihr.1]
    · intro i h h'
      cases i with
      | zero =>
        simp only [numberChecks, List.getElem_cons_zero]
        refine ⟨seqOf counter cd, ⟨?_, ?_, ?_⟩, ?_⟩
        · simp
        · intro j hj
          have hlen : j < cd.addA.length := by simpa [zipSet, recNums] using hj
          rw [zipSet_getElem _ _ 9 j hj hlen]
          simp
        · intro j hj
          have hlen : j < cd.addC.length := by simpa [zipSet, recNums] using hj
          rw [zipSet_getElem _ _ 99 j hj hlen]
          simp
        · intro hne
          have hne' : ¬ (cd.detail.s "EceInstitutionItemSequenceNumber").isEmpty = true := hne
          simp [seqOf, hne']
      | succ k =>
        simp only [numberChecks, List.getElem_cons_succ]
        have hk : k < r.length := by simpa using h
        have hk' : k < (numberChecks (seqOf counter cd + 1) r).length := by rw [ihr.1]; exact hk
        exact ihr.2 k hk hk'

/-- what "numbered consistently with sequence number `s`" means for a return item -/
def ReturnNumbered (s : Int) (it : Item Vals) : Prop :=
  it.detail.s "EceInstitutionItemSequenceNumber" = itoa s ∧
  (∀ i (h : i < it.addA.length), (it.addA[i]).i "RecordNumber" = ((i % 9 + 1 : Nat) : Int) ∧
      (it.addA[i]).s "BOFDItemSequenceNumber" = itoa s) ∧
  (∀ i (h : i < it.addD.length), (it.addD[i]).i "RecordNumber" = ((i % 99 + 1 : Nat) : Int) ∧
      (it.addD[i]).s "EndorsingBankItemSequenceNumber" = itoa s)

/-- **return items**: numbered like check items - addenda A and D carry 1, 2, 3, … and the number of
their item, a supplied number keeps its value, the counter continues from it -/
theorem numberReturns_spec (counter : Int) (items : List (Item Vals)) :
    (numberReturns counter items).length = items.length ∧
    ∀ i (h : i < items.length) (h' : i < (numberReturns counter items).length),
      ∃ s, ReturnNumbered s ((numberReturns counter items)[i]) ∧
        (¬ (items[i].detail.s "EceInstitutionItemSequenceNumber").isEmpty →
          s = parseNum (items[i].detail.s "EceInstitutionItemSequenceNumber")) := by
  induction items generalizing counter with
  | nil => simp [numberReturns]
  | cons rd r ih =>
    have ihr := ih (seqOf counter rd + 1)
    constructor
    · simp only [numberReturns, List.length_cons, ihr.1]
    · intro i h h'
      cases i with
      | zero =>
        simp only [numberReturns, List.getElem_cons_zero]
        refine ⟨seqOf counter rd, ⟨?_, ?_, ?_⟩, ?_⟩
        · simp
        · intro j hj
          have hlen : j < rd.addA.length := by simpa [zipSet, recNums] using hj
          rw [zipSet_getElem _ _ 9 j hj hlen]
          simp
        · intro j hj
          have hlen : j < rd.addD.length := by simpa [zipSet, recNums] using hj
          rw [zipSet_getElem _ _ 99 j hj hlen]
          simp
        · intro hne
          have hne' : ¬ (rd.detail.s "EceInstitutionItemSequenceNumber").isEmpty = true := hne
          simp [seqOf, hne']
      | succ k =>
        simp only [numberReturns, List.getElem_cons_succ]
        have hk : k < r.length := by simpa using h
        have hk' : k < (numberReturns (seqOf counter rd + 1) r).length := by rw [ihr.1]; exact hk
        exact ihr.2 k hk hk'

/-- **bundles are numbered 1..n** (and the build keeps their number and order) -/
theorem buildBundles_numbers (m : Model) (n : Nat) (bs bs' : List (Bundle Vals))
    (h : buildBundles m n bs = .ok bs') :
    bs'.length = bs.length ∧
    ∀ i (hi : i < bs'.length), ∃ hd, bs'[i].header = some hd ∧ hd.s "BundleSequenceNumber" = numericField ((n + i : Nat) : Int) 4 := by
  induction bs generalizing n bs' with
  | nil => simp [buildBundles] at h; subst h; simp
  | cons b r ih =>
    simp only [buildBundles] at h
    split at h
    · cases h
    · rename_i hd hhd
      split at h
      · cases h
      · split at h
        · cases h
        · rename_i b2 hb2
          split at h
          · cases h
          · rename_i rs hrs
            simp only [Except.ok.injEq] at h
            subst h
            have ihr := ih (n + 1) rs hrs
            constructor
            · simp [ihr.1]
            · intro i hi
              cases i with
              | zero =>
                -- bundleBuild keeps the header
                have hb := bundleBuild_ok m _ _ hb2
                subst hb
                exact ⟨_, rfl, by simp⟩
              | succ k =>
                simp only [List.getElem_cons_succ]
                have hk : k < rs.length := by simpa using hi
                obtain ⟨hd', h1, h2⟩ := ihr.2 k hk
                refine ⟨hd', h1, ?_⟩
                rw [h2]
                congr 2
                omega

/-- **finding, with its witness**: a blank sequence number is filled with the running counter, which a
later supplied number may equal — two items of one bundle end up with the same number -/
theorem filled_can_collide :
    let blank : Item Vals := { detail := {} }
    let one : Item Vals := { detail := ({} : Vals).setS "EceInstitutionItemSequenceNumber" [0x31] }
    ((numberChecks 1 [blank, one]).map (fun it => it.detail.s "EceInstitutionItemSequenceNumber")) =
      [numericField 1 15, numericField 1 15] := by
  have h1 : parseNum [0x31] = 1 := by decide
  simp [numberChecks, seqOf, h1]

end Icl.C07
