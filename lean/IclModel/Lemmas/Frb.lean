/-
FRB compatibility mode and validation: a syntactic criterion (`Mono`) under which switching the mode
on can only turn rejections into acceptances and never changes an accepted record, with its
soundness proof over the rule-tree evaluator.
-/
import IclModel.Lemmas.Sites
namespace Icl

def noFrbB : BExp → Bool
  | .frb => false
  | .and a b => noFrbB a && noFrbB b
  | .or a b => noFrbB a && noFrbB b
  | .not a => noFrbB a
  | _ => true

def noFrb : Stmt → Bool
  | .seq a b => noFrb a && noFrb b
  | .ite c a b => noFrbB c && noFrb a && noFrb b
  | _ => true

def VCtx.withFrb (cx : VCtx) (b : Bool) : VCtx := { cx with frb := b }

@[simp] theorem withFrb_codes (cx : VCtx) (b : Bool) : (cx.withFrb b).codes = cx.codes := rfl
@[simp] theorem withFrb_write (cx : VCtx) (b : Bool) : (cx.withFrb b).write = cx.write := rfl
@[simp] theorem withFrb_b64 (cx : VCtx) (b : Bool) : (cx.withFrb b).b64 = cx.b64 := rfl
@[simp] theorem withFrb_frb (cx : VCtx) (b : Bool) : (cx.withFrb b).frb = b := rfl

theorem evalTerm_frb (cx : VCtx) (b : Bool) (v : Vals) (t : Term) :
    evalTerm (cx.withFrb b) v t = evalTerm cx v t := by
  induction t with
  | trim t ih => simp [evalTerm, ih]
  | _ => simp [evalTerm]

theorem evalB_noFrb (cx : VCtx) (b : Bool) (v : Vals) (c : BExp) (h : noFrbB c = true) :
    evalB (cx.withFrb b) v c = evalB cx v c := by
  induction c with
  | frb => simp [noFrbB] at h
  | and x y ihx ihy => simp only [noFrbB, Bool.and_eq_true] at h; simp [evalB, ihx h.1, ihy h.2]
  | or x y ihx ihy => simp only [noFrbB, Bool.and_eq_true] at h; simp [evalB, ihx h.1, ihy h.2]
  | not x ih => simp only [noFrbB] at h; simp [evalB, ih h]
  | _ => simp [evalB, evalTerm_frb]

/-- a rule tree that never consults the mode behaves identically in both modes -/
theorem evalS_noFrb (cx : VCtx) (b : Bool) (s : Stmt) (v : Vals) (h : noFrb s = true) :
    evalS (cx.withFrb b) s v = evalS cx s v := by
  induction s generalizing v with
  | seq x y ihx ihy =>
    simp only [noFrb, Bool.and_eq_true] at h
    simp only [evalS, ihx v h.1]
    cases evalS cx x v <;> simp [ihy _ h.2]
  | ite c x y ihx ihy =>
    simp only [noFrb, Bool.and_eq_true] at h
    simp only [evalS, evalB_noFrb cx b v c h.1.1, ihx v h.1.2, ihy v h.2]
  | _ => simp [evalS]

/-- the statement never falls through -/
def alwaysRejects : Stmt → Bool
  | .reject _ => true
  | .opaque => true
  | .seq a b => alwaysRejects a || alwaysRejects b
  | .ite _ a b => alwaysRejects a && alwaysRejects b
  | _ => false

/-- the condition is false whenever the mode is on -/
def offOnly : BExp → Bool
  | .not .frb => true
  | .and a b => offOnly a || offOnly b
  | _ => false

theorem offOnly_on (cx : VCtx) (v : Vals) (c : BExp) (h : offOnly c = true) :
    evalB (cx.withFrb true) v c = false := by
  induction c with
  | not x _ => cases x <;> simp [offOnly] at h; simp [evalB]
  | and x y ihx ihy =>
    simp only [offOnly, Bool.or_eq_true] at h
    cases h with
    | inl hx => simp [evalB, ihx hx]
    | inr hy => simp [evalB, ihy hy]
  | _ => simp [offOnly] at h

/-- the FRB normalisation shape `if f == x && frb { f = y }; if invalid(fn, f) { reject }` where the
normalised-away value `x` is itself outside the table `fn`: with the mode off such a record is rejected -/
def normaliseShape (codes : Codes) (a b : Stmt) : Bool :=
  match a, b with
  | .ite (.and (.eq (.fieldS f) (.str x)) .frb) (.assign _ _) .skip, .ite (.invalid fn (.fieldS g)) r .skip =>
    f == g && alwaysRejects r && !codeAccepts codes fn (.s x)
  | _, _ => false

/-- syntactic criterion: the mode only relaxes this rule tree -/
def Mono (codes : Codes) : Stmt → Bool
  | .seq a b => (Mono codes a && Mono codes b) || normaliseShape codes a b
  | .ite c a b =>
    (noFrbB c && Mono codes a && Mono codes b) ||
    (offOnly c && noAssign a && noFrb a && b == .skip) ||
    (c == .frb && alwaysRejects b)
  | _ => true

theorem alwaysRejects_not_cont (cx : VCtx) (s : Stmt) (v v' : Vals) (h : alwaysRejects s = true) :
    evalS cx s v ≠ .cont v' := by
  induction s generalizing v v' with
  | reject f => simp [evalS]
  | «opaque» => simp [evalS]
  | seq a b iha ihb =>
    simp only [alwaysRejects, Bool.or_eq_true] at h
    simp only [evalS]
    cases hea : evalS cx a v with
    | cont va =>
      cases h with
      | inl ha => exact absurd hea (iha v va ha)
      | inr hb => simpa using ihb va v' hb
    | rejected f => simp
    | stuck => simp
  | ite c a b iha ihb =>
    simp only [alwaysRejects, Bool.and_eq_true] at h
    simp only [evalS]
    split
    · exact iha v v' h.1
    · exact ihb v v' h.2
  | skip => simp [alwaysRejects] at h
  | assign f x => simp [alwaysRejects] at h

theorem normaliseShape_sound (cx : VCtx) (a b : Stmt) (v v' : Vals) (h : normaliseShape cx.codes a b = true)
    (hoff : evalS (cx.withFrb false) (.seq a b) v = .cont v') : evalS (cx.withFrb true) (.seq a b) v = .cont v' := by
  unfold normaliseShape at h
  split at h
  · rename_i f x f' y fn g r
    simp only [Bool.and_eq_true, beq_iff_eq, Bool.not_eq_true'] at h
    obtain ⟨⟨hfg, hr⟩, hx⟩ := h
    subst hfg
    -- mode off: the normalisation is skipped, the table check decides
    simp only [evalS, evalB, withFrb_frb, Bool.and_false, Bool.false_eq_true, if_false, evalTerm,
      withFrb_codes] at hoff
    cases hacc : codeAccepts cx.codes fn (TVal.s (v.s f)) with
    | false =>
      simp only [hacc, Bool.not_false, if_true] at hoff
      exact absurd hoff (alwaysRejects_not_cont _ r v v' hr)
    | true =>
      simp only [hacc, Bool.not_true, Bool.false_eq_true, if_false] at hoff
      have hne : (v.s f == x) = false := by
        cases hfx : (v.s f == x) with
        | false => rfl
        | true =>
          have : v.s f = x := by simpa using hfx
          rw [this, hx] at hacc; cases hacc
      simp only [evalS, evalB, withFrb_frb, evalTerm, cmpT, hne, Bool.false_and, Bool.false_eq_true, if_false,
        withFrb_codes, hacc, Bool.not_true]
      exact hoff
  · simp at h

/-- **the mode only relaxes**: if the record passes with the mode off, it passes with the mode on and
ends up as the same record -/
theorem mono_sound (cx : VCtx) (s : Stmt) (v v' : Vals) (hm : Mono cx.codes s = true)
    (hoff : evalS (cx.withFrb false) s v = .cont v') : evalS (cx.withFrb true) s v = .cont v' := by
  induction s generalizing v v' with
  | skip => simpa [evalS] using hoff
  | reject f => simp [evalS] at hoff
  | assign f x => simpa [evalS] using hoff
  | «opaque» => simp [evalS] at hoff
  | seq a b iha ihb =>
    simp only [Mono, Bool.or_eq_true, Bool.and_eq_true] at hm
    rcases hm with hm | hn
    · simp only [evalS] at hoff ⊢
      cases hea : evalS (cx.withFrb false) a v with
      | cont va =>
        rw [hea] at hoff
        rw [iha v va hm.1 hea]
        exact ihb va v' hm.2 hoff
      | rejected f => rw [hea] at hoff; cases hoff
      | stuck => rw [hea] at hoff; cases hoff
    · exact normaliseShape_sound cx a b v v' hn hoff
  | ite c a b iha ihb =>
    simp only [Mono, Bool.or_eq_true, Bool.and_eq_true, beq_iff_eq] at hm
    rcases hm with (⟨⟨hc, ha⟩, hb⟩ | ⟨⟨⟨hc, hna⟩, hnf⟩, hb⟩) | ⟨hc, hb⟩
    · -- the condition does not consult the mode
      have e1 := evalB_noFrb cx false v c hc
      have e2 := evalB_noFrb cx true v c hc
      simp only [evalS, e1, e2] at hoff ⊢
      split
      · rename_i h; simp only [h, if_true] at hoff; exact iha v v' ha hoff
      · rename_i h; simp only [h] at hoff; exact ihb v v' hb hoff
    · -- rejection that exists only with the mode off
      subst hb
      have hon := offOnly_on cx v c hc
      simp only [evalS, hon] at hoff ⊢
      simp only [Bool.false_eq_true, if_false]
      split at hoff
      · have := evalS_noAssign_vals _ a v v' hna hoff
        rw [this]
      · simpa [evalS] using hoff
    · -- `if frb { normalise } else { reject }`
      subst hc
      simp only [evalS, evalB, withFrb_frb] at hoff
      simp only [Bool.false_eq_true, if_false] at hoff
      exact absurd hoff (alwaysRejects_not_cont _ b v v' hb)

end Icl
