/-
Runs of decoded records through the tree builder, and their lift to the model reader's record loop.
-/
import IclModel.Lemmas.Reassemble
namespace Icl.C01
open Icl Icl.C04

/-- a record of the stream: kind, decoded value, the bytes of its line -/
abbrev Rec := Kind × Vals × Bytes

/-- `Runs m e c rs c'`: every record of `rs` has a line of its kind, long enough, that decodes (under
the reader's options) to its value, and attaching them one after the other leads from `c` to `c'` -/
inductive Runs (m : Model) (e : Enc) : Core → List Rec → Core → Prop
  | nil (c : Core) : Runs m e c [] c
  | cons (c c1 c2 : Core) (k : Kind) (v : Vals) (line : Bytes) (rest : List Rec) :
      kindOfLine line = some k → minLen m e line ≤ line.length →
      recParse m e k line (v0For m c k) = .ok v → pushRec m c k v = some c1 → Runs m e c1 rest c2 →
      Runs m e c ((k, v, line) :: rest) c2

theorem Runs.append {m : Model} {e : Enc} {c c1 c2 : Core} {l1 l2 : List Rec}
    (h1 : Runs m e c l1 c1) (h2 : Runs m e c1 l2 c2) : Runs m e c (l1 ++ l2) c2 := by
  induction h1 with
  | nil c => simpa using h2
  | cons c ca cb k v line rest hk hl hp hpush _ ih =>
    exact Runs.cons c ca c2 k v line (rest ++ l2) hk hl hp hpush (ih h2)

theorem Runs.single {m : Model} {e : Enc} {c c1 : Core} {k : Kind} {v : Vals} {line : Bytes}
    (hk : kindOfLine line = some k) (hl : minLen m e line ≤ line.length)
    (hp : recParse m e k line (v0For m c k) = .ok v) (hpush : pushRec m c k v = some c1) :
    Runs m e c [(k, v, line)] c1 :=
  Runs.cons c c1 c1 k v line [] hk hl hp hpush (Runs.nil c1)

/-- the record loop follows a run: no error, the tree part ends where the run ends, the file-level
slots are untouched -/
theorem readLines_of_runs (m : Model) (e : Enc) (c' : Core) (recs : List Rec) (s : RState)
    (h : Runs m e s.core recs c') :
    ∃ s', readLines m e (recs.map (·.2.2)) s = (s', none) ∧ s'.core = c' ∧
      s'.header = s.header ∧ s'.control = s.control ∧ s'.headerUntouched = s.headerUntouched := by
  generalize hc : s.core = c at h
  induction h generalizing s with
  | nil c => subst hc; exact ⟨s, rfl, rfl, rfl, rfl, rfl⟩
  | cons c ca cb k v line rest hk hl hp hpush _ ih =>
    subst hc
    let s1 : RState := { s with lineNum := s.lineNum + 1 }
    have hcore : s1.core = s.core := rfl
    obtain ⟨s2, hstep, hc2, ho⟩ := rstep_of_push m e s1 line k v ca hk (by rw [hcore]; exact hp) (by rw [hcore]; exact hpush)
    obtain ⟨s3, hr, hc3, h1, h2, h3⟩ := ih s2 hc2
    refine ⟨s3, ?_, hc3, ?_, ?_, ?_⟩
    · simp only [List.map_cons, readLines]
      have : ¬ line.length < minLen m e line := by omega
      simp only [this, if_false]
      show (match rstep m e s1 line with
        | .ok s' => readLines m e (rest.map (·.2.2)) s'
        | .error (s', er) => (s', some { er with line := s1.lineNum })) = (s3, none)
      rw [hstep]
      exact hr
    · rw [h1, ho.1]
    · rw [h2, ho.2.1]
    · rw [h3, ho.2.2.1]

end Icl.C01
