/-
Record-level round trip for the fixed-width record kinds (C01's per-record premise): for a layout whose
regenerated `Parse()` is straight-line over the columns its regenerated `String()` writes
(`SimpleLayout`, decidable, established by `decide` per record kind), parsing the rendering of a
canonical record value gives the record back.
-/
import IclModel.Lemmas.Render
import IclModel.Lemmas.InverseStr
namespace Icl

/-- the write field that starts at byte offset `off` of a fixed layout -/
def fieldAt : List WField → Nat → Option WField
  | [], _ => none
  | g :: r, off => if off = 0 then some g else if g.width ≤ off ∧ 0 < g.width then fieldAt r (off - g.width) else none

/-- the decoder that inverts a getter -/
def pkOf : Conv → Option PKind
  | .alpha | .nbsm | .zstr => some .str
  | .numeric | .numericBlankNonPos => some .num
  | .date | .dateBlankZero => some .date
  | .time => some .time
  | _ => none

/-- a fixed layout whose `Parse()` is straight-line: length guards the full record passes, the record
type, constants, and one decode per written field, from exactly the columns it is written to -/
def stmtOK (ws : List WField) (W : Nat) : PStmt → Bool
  | .guardRunes ne n => if ne then n == W else decide (n ≤ W)
  | .guardBytes n => decide (n ≤ W)
  | .setType => true
  | .lit _ _ => true
  | .assign dst lo hi k _ =>
    lo.vars.isEmpty && hi.vars.isEmpty &&
    (match fieldAt ws lo.c with
     | some f => f.src == dst && hi.c == lo.c + f.width && pkOf f.conv == some k
     | none => false)
  | _ => false

def SimpleLayout (L : RecLayout) : Bool :=
  AllWf L.write && AllFixed L.write && L.parse.all (stmtOK L.write (fixedWidth L.write))

end Icl

namespace Icl

theorem slice?_append_right (a b : Bytes) (lo hi : Nat) (h : a.length ≤ lo) (hh : lo ≤ hi) :
    slice? (a ++ b) (lo : Int) (hi : Int) = slice? b ((lo - a.length : Nat) : Int) ((hi - a.length : Nat) : Int) := by
  unfold slice?
  have e1 : (0 ≤ (lo : Int) ∧ (lo : Int) ≤ (hi : Int) ∧ (hi : Int) ≤ ((a ++ b).length : Int)) ↔
      (0 ≤ ((lo - a.length : Nat) : Int) ∧ ((lo - a.length : Nat) : Int) ≤ ((hi - a.length : Nat) : Int) ∧
        ((hi - a.length : Nat) : Int) ≤ (b.length : Int)) := by
    simp only [List.length_append]
    omega
  by_cases hc : (0 ≤ (lo : Int) ∧ (lo : Int) ≤ (hi : Int) ∧ (hi : Int) ≤ ((a ++ b).length : Int))
  · rw [if_pos hc, if_pos (e1.1 hc)]
    simp only [Int.toNat_natCast]
    congr 1
    rw [List.drop_append, List.drop_eq_nil_of_le h, List.nil_append]
    congr 1
    omega
  · rw [if_neg hc, if_neg (fun x => hc (e1.2 x))]


theorem slice?_prefix (a b : Bytes) (n : Nat) (h : a.length = n) :
    slice? (a ++ b) (0 : Int) (n : Int) = some a := by
  unfold slice?
  have : (0 : Int) ≤ 0 ∧ (0 : Int) ≤ (n : Int) ∧ (n : Int) ≤ ((a ++ b).length : Int) := by
    simp only [List.length_append]; omega
  rw [if_pos this]
  simp [← h]

theorem fixed_len (b64 : Bytes → Option Bytes) (g : WField) (v : Vals) (hw : WfW g = true)
    (hf : (FixedConv g.conv && !g.imageOnly) = true) (ht : TypeSet v) : (renderField b64 g v).length = g.width := by
  rw [renderField_length b64 g v hw ht]
  simp only [Bool.and_eq_true] at hf
  unfold lenOf
  cases hc : g.conv <;> simp [hc, FixedConv] at hf ⊢

/-- the bytes of the field that starts at `off`: exactly its rendering -/
theorem slice_fieldAt (b64 : Bytes → Option Bytes) (v : Vals) (ht : TypeSet v) :
    ∀ (ws : List WField) (off : Nat) (f : WField), AllWf ws = true → AllFixed ws = true → fieldAt ws off = some f →
      slice? (render b64 ws true v) (off : Int) ((off + f.width : Nat) : Int) = some (renderField b64 f v)
  | [], off, f, _, _, h => by simp [fieldAt] at h
  | g :: r, off, f, hw, hf, h => by
    simp only [AllWf, List.all_cons, Bool.and_eq_true] at hw
    simp only [AllFixed, List.all_cons] at hf
    rw [Bool.and_eq_true] at hf
    have hlen := fixed_len b64 g v hw.1 hf.1 ht
    have hio : g.imageOnly = false := by
      have := hf.1; simp only [Bool.and_eq_true, Bool.not_eq_true'] at this; exact this.2
    have hr : render b64 (g :: r) true v = renderField b64 g v ++ render b64 r true v := by
      simp [render, hio]
    rw [hr]
    unfold fieldAt at h
    by_cases h0 : off = 0
    · subst h0
      simp only [if_true, Option.some.injEq] at h
      subst h
      have := slice?_prefix (renderField b64 g v) (render b64 r true v) g.width hlen
      simpa using this
    · simp only [h0, if_false] at h
      split at h
      · rename_i hge
        have ih := slice_fieldAt b64 v ht r (off - g.width) f (by simpa [AllWf] using hw.2) (by simpa [AllFixed] using hf.2) h
        rw [slice?_append_right _ _ off (off + f.width) (by omega) (by omega)]
        rw [hlen]
        have e : off + f.width - g.width = off - g.width + f.width := by omega
        rw [e]
        exact ih
      · cases h

/-- what a canonical value of a written field is: the getter's rendering decodes back to it -/
def CanonField (f : WField) (v : Vals) : Prop :=
  match f.conv with
  | .alpha | .nbsm => Trimmed (v.s f.src) ∧ (v.s f.src).length ≤ f.width
  | .zstr => Trimmed (v.s f.src) ∧ (v.s f.src).length = f.width
  | .numeric => 0 ≤ v.i f.src ∧ v.i f.src < 9223372036854775808 ∧ (itoa (v.i f.src)).length ≤ f.width
  | .numericBlankNonPos => 0 ≤ v.i f.src ∧ v.i f.src < 9223372036854775808 ∧ (itoa (v.i f.src)).length ≤ f.width
  | .date => (v.d f.src).valid = true
  | .dateBlankZero => (v.d f.src).valid = true
  | .time => (v.t f.src).valid = true ∧ (v.t f.src).z = false
  | _ => True

/-- the effect of a parse statement when the record decodes to `v`: the decoded member takes `v`'s value -/
def replayStmt (now : Date) (sty : List SetAct) (v : Vals) (st : PStmt) (acc : Vals) : Vals :=
  match st with
  | .assign dst _ _ k _ =>
    (match k with
     | .num => acc.setI dst (v.i dst)
     | .str | .raw | .bytes => acc.setS dst (v.s dst)
     | .date => acc.setD dst (v.d dst)
     | .time => acc.setT dst (v.t dst))
  | .lit dst b => acc.setS dst b
  | .setType => applySetType now sty acc
  | _ => acc

def replay (now : Date) (sty : List SetAct) (v : Vals) (ps : List PStmt) (acc : Vals) : Vals :=
  ps.foldl (fun a st => replayStmt now sty v st a) acc


theorem fieldAt_mem : ∀ (ws : List WField) (off : Nat) (f : WField), fieldAt ws off = some f → f ∈ ws
  | [], _, _, h => by simp [fieldAt] at h
  | g :: r, off, f, h => by
    unfold fieldAt at h
    by_cases h0 : off = 0
    · simp only [h0, if_true, Option.some.injEq] at h
      subst h; simp
    · simp only [h0, if_false] at h
      split at h
      · exact List.mem_cons_of_mem _ (fieldAt_mem r _ f h)
      · cases h

theorem parseNum_blanks (w : Nat) : parseNum (blanks w) = 0 := by
  unfold parseNum blanks
  have := trimSpace_padded [] w 0 (Or.inl rfl)
  simp only [List.append_nil, List.replicate_zero] at this
  rw [this]
  rfl

theorem parseDate_blanks8 : parseDate (blanks 8) = Date.zero := by decide

theorem Vals.assign_eq (acc : Vals) (dst : String) (k : PKind) (x : Bytes) :
    acc.assign dst k x =
      match k with
      | .num => acc.setI dst (parseNum x)
      | .str => acc.setS dst (parseStr x)
      | .date => acc.setD dst (parseDate x)
      | .time => acc.setT dst (parseTime x)
      | .raw => acc.setS dst x
      | .bytes => acc.setS dst x := by
  cases k <;> rfl

/-- decoding the rendering of a canonical field gives the field back -/
theorem assign_decodes (b64 : Bytes → Option Bytes) (now : Date) (sty : List SetAct) (f : WField) (v acc : Vals)
    (k : PKind) (lo hi : Off) (dc : Bool) (hw : WfW f = true) (hk : pkOf f.conv = some k) (hc : CanonField f v) :
    acc.assign f.src k (renderField b64 f v) = replayStmt now sty v (.assign f.src lo hi k dc) acc := by
  unfold WfW at hw
  simp only [Bool.and_eq_true, decide_eq_true_eq] at hw
  obtain ⟨hwid, hshape⟩ := hw
  unfold CanonField at hc
  unfold renderField replayStmt
  cases hcv : f.conv <;> simp only [hcv, pkOf, Option.some.injEq, reduceCtorEq] at hk hc hshape ⊢
  · -- alpha
    subst hk
    simp only [Vals.assign, parseStr_alphaField _ _ hc.1 hc.2 hwid]
  · -- numeric
    subst hk
    simp only [Vals.assign, parseNum_numericField _ _ hc.1 hc.2.1 hc.2.2 hwid]
  · -- nbsm
    subst hk
    simp only [Vals.assign, parseStr_nbsmField _ _ hc.1 hc.2 hwid]
  · -- zstr
    subst hk
    have hz : zstrField (v.s f.src) f.width = v.s f.src := by
      rw [zstrField_fit _ _ (by omega) hwid]; simp [hc.2]
    have ht := trimSpace_padded (v.s f.src) 0 0 hc.1
    simp only [List.replicate_zero, List.nil_append, List.append_nil] at ht
    simp only [Vals.assign, hz, parseStr, ht]
  · -- date
    subst hk
    simp only [Vals.assign, parseDate_fmtDate _ hc]
  · -- time
    subst hk
    simp only [Vals.assign, parseTime_fmtTime _ hc.1 hc.2]
  · -- numericBlankNonPos
    subst hk
    by_cases hz : v.i f.src ≤ 0
    · have h0 : v.i f.src = 0 := by omega
      simp [Vals.assign, parseNum_blanks, h0]
    · simp only [hz, if_false, Vals.assign, parseNum_numericField _ _ hc.1 hc.2.1 hc.2.2 hwid]
  · -- dateBlankZero
    subst hk
    have hw8 : f.width = 8 := by simpa using hshape
    by_cases hz : (v.d f.src).isZero = true
    · have h0 : v.d f.src = Date.zero := by simpa [Date.isZero] using hz
      have hzz : Date.zero.isZero = true := by decide
      simp [Vals.assign, hw8, parseDate_blanks8, h0, hzz]
    · have hz' : (v.d f.src).isZero = false := by simpa using hz
      simp [Vals.assign, hz', parseDate_fmtDate _ hc]

theorem Off.eval_const (c : Nat) (e : Env) : (Off.mk c []).eval e = (c : Int) := by
  simp [Off.eval]

/-- **parsing the rendering of a canonical record replays the record**: for a straight-line `Parse()`
over the written columns, on the full-length rendering of a value whose fields are canonical -/
theorem parse_render (b64 : Bytes → Option Bytes) (now : Date) (sty : List SetAct) (ws : List WField) (v : Vals)
    (hwf : AllWf ws = true) (hfx : AllFixed ws = true) (ht : TypeSet v)
    (hcanon : ∀ f ∈ ws, CanonField f v)
    (hrunes : runeCount (render b64 ws true v) = fixedWidth ws) :
    ∀ (ps : List PStmt) (e : Env) (acc : Vals), ps.all (stmtOK ws (fixedWidth ws)) = true →
      parseStmts id now sty (render b64 ws true v) ps e acc = .done (replay now sty v ps acc)
  | [], e, acc, _ => by simp [parseStmts, replay]
  | st :: rest, e, acc, hok => by
    simp only [List.all_cons, Bool.and_eq_true] at hok
    obtain ⟨h1, hrest⟩ := hok
    have hlen : (render b64 ws true v).length = fixedWidth ws := render_length_fixed b64 ws true v hwf hfx ht
    have ih := fun e' acc' => parse_render b64 now sty ws v hwf hfx ht hcanon hrunes rest e' acc' hrest
    cases st with
    | guardRunes ne n =>
      simp only [stmtOK] at h1
      simp only [parseStmts, hrunes]
      have : ¬ (if ne = true then fixedWidth ws ≠ n else fixedWidth ws < n) := by
        cases ne with
        | true => simp only [if_true] at h1 ⊢; simp at h1; omega
        | false => simp only [Bool.false_eq_true, if_false] at h1 ⊢; simp at h1; omega
      simp only [this, if_false]
      rw [ih]; simp [replay, replayStmt]
    | guardBytes n =>
      simp only [stmtOK, decide_eq_true_eq] at h1
      simp only [parseStmts, hlen]
      have : ¬ (fixedWidth ws < n) := by omega
      simp only [this, if_false]
      rw [ih]; simp [replay, replayStmt]
    | setType =>
      simp only [parseStmts]
      rw [ih]; simp [replay, replayStmt]
    | lit dst b =>
      simp only [parseStmts]
      rw [ih]; simp [replay, replayStmt]
    | assign dst lo hi k dc =>
      simp only [stmtOK, Bool.and_eq_true, List.isEmpty_iff] at h1
      obtain ⟨⟨hlo, hhi⟩, hf⟩ := h1
      cases hfa : fieldAt ws lo.c with
      | none => simp [hfa] at hf
      | some f =>
        simp only [hfa, Bool.and_eq_true, beq_iff_eq] at hf
        obtain ⟨⟨hsrc, hhic⟩, hpk⟩ := hf
        have hmem := fieldAt_mem ws lo.c f hfa
        have hwfF : WfW f = true := by
          simp only [AllWf, List.all_eq_true] at hwf; exact hwf f hmem
        have hsl := slice_fieldAt b64 v ht ws lo.c f hwf hfx hfa
        have elo : lo.eval e = (lo.c : Int) := by
          cases lo with
          | mk c vars => simp only at hlo; subst hlo; exact Off.eval_const c e
        have ehi : hi.eval e = ((lo.c + f.width : Nat) : Int) := by
          cases hi with
          | mk c vars => simp only at hhi hhic; subst hhi; subst hhic; exact Off.eval_const _ e
        simp only [parseStmts, elo, ehi, hsl]
        rw [ih]
        have hd : (if dc = true then id (renderField b64 f v) else renderField b64 f v) = renderField b64 f v := by
          cases dc <;> rfl
        rw [hd, ← hsrc, assign_decodes b64 now sty f v acc k lo hi dc hwfF hpk (hcanon f hmem)]
        simp [replay]
    | guardVar _ _ _ _ => simp [stmtOK] at h1
    | bind _ _ => simp [stmtOK] at h1
    | «opaque» => simp [stmtOK] at h1

end Icl
