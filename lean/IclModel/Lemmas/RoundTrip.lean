/-
Record-level round trip (C01's per-record premise), for every record kind - fixed width or with
variable-length sections (records 27, 34, 52): when the regenerated `Parse()` is straight-line over the
columns the regenerated `String()` writes (`LayoutOK`, a decidable check established by `decide` per
record kind: every slice of `Parse()` is, symbolically, the span of the written field it assigns),
parsing the rendering of a canonical record value gives the record back.
-/
import IclModel.Lemmas.Render
import IclModel.Lemmas.InverseStr
namespace Icl

/-! ### slices of concatenations -/

theorem slice?_append_right (a b : Bytes) (lo hi : Nat) (h : a.length ≤ lo) (hh : lo ≤ hi) :
    slice? (a ++ b) (lo : Int) (hi : Int) = slice? b ((lo - a.length : Nat) : Int) ((hi - a.length : Nat) : Int) := by
  unfold slice?
  have e1 : (0 ≤ (lo : Int) ∧ (lo : Int) ≤ (hi : Int) ∧ (hi : Int) ≤ ((a ++ b).length : Int)) ↔
      (0 ≤ ((lo - a.length : Nat) : Int) ∧ ((lo - a.length : Nat) : Int) ≤ ((hi - a.length : Nat) : Int) ∧
        ((hi - a.length : Nat) : Int) ≤ (b.length : Int)) := by
    simp only [List.length_append]
    omega
  by_cases hc : (0 ≤ (lo : Int) ∧ (lo : Int) ≤ (hi : Int) ∧ (hi : Int) ≤ ((a ++ b).length : Int))
  · rw [if_pos hc, if_pos (e1.1 hc)]
    simp only [Int.toNat_natCast]
    congr 1
    rw [List.drop_append, List.drop_eq_nil_of_le h, List.nil_append]
    congr 1
    omega
  · rw [if_neg hc, if_neg (fun x => hc (e1.2 x))]


theorem slice?_prefix (a b : Bytes) (n : Nat) (h : a.length = n) :
    slice? (a ++ b) (0 : Int) (n : Int) = some a := by
  unfold slice?
  have : (0 : Int) ≤ 0 ∧ (0 : Int) ≤ (n : Int) ∧ (n : Int) ≤ ((a ++ b).length : Int) := by
    simp only [List.length_append]; omega
  rw [if_pos this]
  simp [← h]

theorem slice?_mid (pre mid post : Bytes) :
    slice? (pre ++ mid ++ post) (pre.length : Int) ((pre.length + mid.length : Nat) : Int) = some mid := by
  rw [List.append_assoc, slice?_append_right pre (mid ++ post) pre.length (pre.length + mid.length) (Nat.le_refl _) (by omega)]
  have e1 : pre.length - pre.length = 0 := by omega
  have e2 : pre.length + mid.length - pre.length = mid.length := by omega
  rw [e1, e2]
  exact slice?_prefix mid post mid.length rfl

/-! ### symbolic offsets: fixed columns plus the lengths announced by named members -/

def isVarConv : Conv → Bool
  | .alphaVar | .bytesVar | .image => true
  | _ => false

structure SymOff where
  c : Nat
  lens : List String
deriving DecidableEq, Repr, Inhabited

/-- bytes of a variable section whose length member is `lf` (0 when the announced length is not a valid size) -/
def widthOfLen (v : Vals) (lf : String) : Nat := (varWidth v lf).getD 0

def sumW (v : Vals) : List String → Nat
  | [] => 0
  | lf :: r => widthOfLen v lf + sumW v r

theorem sumW_append (v : Vals) (a b : List String) : sumW v (a ++ b) = sumW v a + sumW v b := by
  induction a with
  | nil => simp [sumW]
  | cons x r ih => simp [sumW, ih]; omega

def SymOff.val (v : Vals) (o : SymOff) : Nat := o.c + sumW v o.lens

/-- the offset behind field `f` that starts at `o` -/
def SymOff.next (o : SymOff) (f : WField) : SymOff :=
  if isVarConv f.conv then ⟨o.c, o.lens ++ [f.lenField]⟩ else ⟨o.c + f.width, o.lens⟩

/-- every written field with the symbolic offset it starts at -/
def spans : List WField → SymOff → List (SymOff × WField)
  | [], _ => []
  | f :: r, o => (o, f) :: spans r (o.next f)

/-- a field's length in bytes is what its symbolic span says (fixed converters: the width; variable
sections: the announced length - for the image, when it is not base64 text) -/
def LenIsSym (b64 : Bytes → Option Bytes) (f : WField) (v : Vals) : Prop :=
  lenOf b64 f v = if isVarConv f.conv then widthOfLen v f.lenField else f.width

theorem next_val (b64 : Bytes → Option Bytes) (o : SymOff) (f : WField) (v : Vals) (h : LenIsSym b64 f v) :
    (o.next f).val v = o.val v + lenOf b64 f v := by
  unfold LenIsSym at h
  unfold SymOff.next SymOff.val
  by_cases hv : isVarConv f.conv = true
  · simp only [hv, if_true] at h ⊢
    simp only [sumW_append, sumW, h]; omega
  · simp only [hv, if_false] at h ⊢
    rw [h]; simp only [Bool.false_eq_true, if_false]; omega

/-- **the span lemma**: a field listed at symbolic offset `o'` occupies, in the rendering, exactly the
bytes from `o'` to the offset behind it -/
theorem span_split (b64 : Bytes → Option Bytes) (v : Vals) (ht : TypeSet v) :
    ∀ (ws : List WField) (o o' : SymOff) (f : WField), AllWf ws = true → (∀ g ∈ ws, LenIsSym b64 g v) →
      (o', f) ∈ spans ws o →
      ∃ pre post, render b64 ws true v = pre ++ renderField b64 f v ++ post ∧ o.val v + pre.length = o'.val v ∧
        (o'.next f).val v = o'.val v + (renderField b64 f v).length
  | [], _, _, _, _, _, h => by simp [spans] at h
  | g :: r, o, o', f, hw, hl, h => by
    simp only [AllWf, List.all_cons, Bool.and_eq_true] at hw
    have hr : render b64 (g :: r) true v = renderField b64 g v ++ render b64 r true v := by
      simp [render]
    have hlg := renderField_length b64 g v hw.1 ht
    simp only [spans, List.mem_cons, Prod.mk.injEq] at h
    rcases h with ⟨ho, hf⟩ | h
    · subst ho; subst hf
      refine ⟨[], render b64 r true v, ?_, ?_, ?_⟩
      · simp [hr]
      · simp
      · rw [next_val b64 o' f v (hl f (by simp)), hlg]
    · obtain ⟨pre, post, h1, h2, h3⟩ := span_split b64 v ht r (o.next g) o' f (by simpa [AllWf] using hw.2)
        (fun x hx => hl x (by simp [hx])) h
      refine ⟨renderField b64 g v ++ pre, post, ?_, ?_, h3⟩
      · rw [hr, h1]; simp [List.append_assoc]
      · rw [next_val b64 o g v (hl g (by simp))] at h2
        simp only [List.length_append]; omega

/-- the offset behind the last field -/
def endOff : List WField → SymOff → SymOff
  | [], o => o
  | f :: r, o => endOff r (o.next f)

theorem endOff_val (b64 : Bytes → Option Bytes) (v : Vals) (ht : TypeSet v) :
    ∀ (ws : List WField) (o : SymOff), AllWf ws = true → (∀ g ∈ ws, LenIsSym b64 g v) →
      (endOff ws o).val v = o.val v + (render b64 ws true v).length
  | [], o, _, _ => by simp [endOff, render]
  | g :: r, o, hw, hl => by
    simp only [AllWf, List.all_cons, Bool.and_eq_true] at hw
    have hr : render b64 (g :: r) true v = renderField b64 g v ++ render b64 r true v := by
      simp [render]
    have ih := endOff_val b64 v ht r (o.next g) (by simpa [AllWf] using hw.2) (fun x hx => hl x (by simp [hx]))
    simp only [endOff, ih, hr, List.length_append, next_val b64 o g v (hl g (by simp)),
      renderField_length b64 g v hw.1 ht]
    omega

/-- the length members a span's offset mentions are length members of variable sections of the table -/
theorem spans_lens : ∀ (ws : List WField) (o o' : SymOff) (f : WField), (o', f) ∈ spans ws o →
    (∀ lf ∈ o'.lens, lf ∈ o.lens ∨ ∃ g ∈ ws, isVarConv g.conv = true ∧ g.lenField = lf) ∧
    (∀ lf ∈ (o'.next f).lens, lf ∈ o.lens ∨ ∃ g ∈ ws, isVarConv g.conv = true ∧ g.lenField = lf)
  | [], _, _, _, h => by simp [spans] at h
  | g :: r, o, o', f, h => by
    simp only [spans, List.mem_cons, Prod.mk.injEq] at h
    rcases h with ⟨ho, hf⟩ | h
    · subst ho; subst hf
      refine ⟨fun lf h => Or.inl h, ?_⟩
      intro lf hlf
      unfold SymOff.next at hlf
      by_cases hv : isVarConv f.conv = true
      · simp only [hv, if_true, List.mem_append, List.mem_singleton] at hlf
        rcases hlf with h | h
        · exact Or.inl h
        · exact Or.inr ⟨f, by simp, hv, h.symm⟩
      · simp only [hv, if_false] at hlf
        simp only [Bool.false_eq_true, if_false] at hlf
        exact Or.inl hlf
    · obtain ⟨h1, h2⟩ := spans_lens r (o.next g) o' f h
      have lift : ∀ lf, (lf ∈ (o.next g).lens ∨ ∃ x ∈ r, isVarConv x.conv = true ∧ x.lenField = lf) →
          (lf ∈ o.lens ∨ ∃ x ∈ g :: r, isVarConv x.conv = true ∧ x.lenField = lf) := by
        intro lf hx
        rcases hx with hx | ⟨x, hxr, hxv, hxl⟩
        · unfold SymOff.next at hx
          by_cases hv : isVarConv g.conv = true
          · simp only [hv, if_true, List.mem_append, List.mem_singleton] at hx
            rcases hx with hx | hx
            · exact Or.inl hx
            · exact Or.inr ⟨g, by simp, hv, hx.symm⟩
          · simp only [hv, if_false] at hx
            simp only [Bool.false_eq_true, if_false] at hx
            exact Or.inl hx
        · exact Or.inr ⟨x, by simp [hxr], hxv, hxl⟩
      exact ⟨fun lf hlf => lift lf (h1 lf hlf), fun lf hlf => lift lf (h2 lf hlf)⟩

theorem parseNum_blanks (w : Nat) : parseNum (blanks w) = 0 := by
  unfold parseNum blanks
  have := trimSpace_padded [] w 0 (Or.inl rfl)
  simp only [List.append_nil, List.replicate_zero] at this
  rw [this]
  rfl

theorem parseDate_blanks8 : parseDate (blanks 8) = Date.zero := by decide


theorem Vals.assign_eq (acc : Vals) (dst : String) (k : PKind) (x : Bytes) :
    acc.assign dst k x =
      match k with
      | .num => acc.setI dst (parseNum x)
      | .str => acc.setS dst (parseStr x)
      | .date => acc.setD dst (parseDate x)
      | .time => acc.setT dst (parseTime x)
      | .raw => acc.setS dst x
      | .bytes => acc.setS dst x := by
  cases k <;> rfl

/-! ### canonical field values -/

/-- the announced length of a variable section is a number `Parse()` and `String()` read alike -/
def LenOK (v : Vals) (lf : String) : Prop := 0 ≤ parseNum (v.s lf) ∧ parseNum (v.s lf) < (maxGrow : Int)

theorem widthOfLen_of_lenOK (v : Vals) (lf : String) (h : LenOK v lf) : (widthOfLen v lf : Int) = parseNum (v.s lf) := by
  unfold widthOfLen varWidth validSizeInt
  simp only
  by_cases h0 : 0 < parseNum (v.s lf)
  · have : (decide (0 < parseNum (v.s lf)) && decide (parseNum (v.s lf) < (maxGrow : Int))) = true := by
      simp [h0, h.2]
    simp only [this, if_true, Option.getD_some]
    omega
  · have : (decide (0 < parseNum (v.s lf)) && decide (parseNum (v.s lf) < (maxGrow : Int))) = false := by
      simp [h0]
    simp only [this, Bool.false_eq_true, if_false, Option.getD_none]
    have := h.1
    omega

/-- which decoder `Parse()` may use for a getter's column (`raws`: string members stored untrimmed) -/
def compat (raws : List String) (f : WField) : PKind → Bool
  | .str => (f.conv == .alpha && !raws.contains f.src) || f.conv == .nbsm || f.conv == .zstr || f.conv == .alphaVar
  | .raw => f.conv == .alpha && raws.contains f.src
  | .num => f.conv == .numeric || f.conv == .numericBlankNonPos
  | .date => f.conv == .date || f.conv == .dateBlankZero
  | .time => f.conv == .time
  | .bytes => f.conv == .bytesVar || f.conv == .image

/-- what a canonical value of a written field is: it fits its column and the column's decoder returns it -/
def CanonField (b64 : Bytes → Option Bytes) (raws : List String) (f : WField) (v : Vals) : Prop :=
  match f.conv with
  | .alpha => if raws.contains f.src then (v.s f.src).length = f.width else Trimmed (v.s f.src) ∧ (v.s f.src).length ≤ f.width
  | .nbsm => Trimmed (v.s f.src) ∧ (v.s f.src).length ≤ f.width
  | .zstr => Trimmed (v.s f.src) ∧ (v.s f.src).length = f.width
  | .numeric => 0 ≤ v.i f.src ∧ v.i f.src < 9223372036854775808 ∧ (itoa (v.i f.src)).length ≤ f.width
  | .numericBlankNonPos => 0 ≤ v.i f.src ∧ v.i f.src < 9223372036854775808 ∧ (itoa (v.i f.src)).length ≤ f.width
  | .date => (v.d f.src).valid = true
  | .dateBlankZero => (v.d f.src).valid = true
  | .time => (v.t f.src).valid = true ∧ (v.t f.src).z = false
  | .alphaVar => LenOK v f.lenField ∧ Trimmed (v.s f.src) ∧ (v.s f.src).length ≤ widthOfLen v f.lenField
  | .bytesVar => LenOK v f.lenField ∧ (v.s f.src).length = widthOfLen v f.lenField
  | .image => LenOK v f.lenField ∧ b64 (v.s f.src) = none ∧ (v.s f.src).length = widthOfLen v f.lenField
  | _ => True

theorem canon_lenIsSym (b64 : Bytes → Option Bytes) (raws : List String) (f : WField) (v : Vals)
    (h : CanonField b64 raws f v) : LenIsSym b64 f v := by
  unfold CanonField at h
  unfold LenIsSym lenOf widthOfLen
  cases hc : f.conv <;> simp only [hc, isVarConv] at h ⊢ <;> simp
  rw [h.2.1]

theorem canon_lenOK (b64 : Bytes → Option Bytes) (raws : List String) (f : WField) (v : Vals)
    (h : CanonField b64 raws f v) (hv : isVarConv f.conv = true) : LenOK v f.lenField := by
  unfold CanonField at h
  cases hc : f.conv <;> simp only [hc, isVarConv] at h hv <;> first | exact h.1 | cases hv

/-- the effect of a parse statement when the record decodes to `v`: the decoded member takes `v`'s value -/
def replayStmt (now : Date) (sty : List SetAct) (v : Vals) (st : PStmt) (acc : Vals) : Vals :=
  match st with
  | .assign dst _ _ k _ =>
    (match k with
     | .num => acc.setI dst (v.i dst)
     | .str | .raw | .bytes => acc.setS dst (v.s dst)
     | .date => acc.setD dst (v.d dst)
     | .time => acc.setT dst (v.t dst))
  | .lit dst b => acc.setS dst b
  | .setType => applySetType now sty acc
  | _ => acc

def replay (now : Date) (sty : List SetAct) (v : Vals) (ps : List PStmt) (acc : Vals) : Vals :=
  ps.foldl (fun a st => replayStmt now sty v st a) acc

theorem alphaField_full (s : Bytes) (w : Nat) (h : s.length = w) (hw : w < maxGrow) : alphaField s w = s := by
  rw [alphaField_fit _ _ (by omega) hw]; simp [h]

theorem varBytes_decodes (v acc : Vals) (src lf : String) (h : (v.s src).length = widthOfLen v lf) :
    acc.assign src PKind.bytes
      (match varWidth v lf with
      | some n => alphaField (v.s src) n
      | none => []) = acc.setS src (v.s src) := by
  cases hvw : varWidth v lf with
  | none =>
    have h0 : (v.s src).length = 0 := by simpa [widthOfLen, hvw] using h
    have hnil : v.s src = [] := List.eq_nil_of_length_eq_zero h0
    simp only [Vals.assign, hnil]
  | some n =>
    have hn := varWidth_lt v lf n hvw
    have hle : (v.s src).length = n := by simpa [widthOfLen, hvw] using h
    simp only [Vals.assign, alphaField_full _ _ hle hn]

/-- decoding the rendering of a canonical field gives the field back -/
theorem assign_decodes (b64 : Bytes → Option Bytes) (raws : List String) (now : Date) (sty : List SetAct) (f : WField) (v acc : Vals)
    (k : PKind) (lo hi : Off) (dc : Bool) (hw : WfW f = true) (hk : compat raws f k = true) (hc : CanonField b64 raws f v) :
    acc.assign f.src k (renderField b64 f v) = replayStmt now sty v (.assign f.src lo hi k dc) acc := by
  unfold WfW at hw
  simp only [Bool.and_eq_true, decide_eq_true_eq] at hw
  obtain ⟨hwid, hshape⟩ := hw
  unfold CanonField at hc
  unfold renderField replayStmt
  cases hcv : f.conv <;> cases k <;> simp [hcv, compat] at hk hc hshape ⊢
  · -- alpha / str
    simp only [hk, Bool.false_eq_true, if_false] at hc
    simp only [Vals.assign, parseStr_alphaField _ _ hc.1 hc.2 hwid]
  · -- alpha / raw
    simp only [hk, if_true] at hc
    simp only [Vals.assign, alphaField_full _ _ hc hwid]
  · -- numeric
    simp only [Vals.assign, parseNum_numericField _ _ hc.1 hc.2.1 hc.2.2 hwid]
  · -- nbsm
    simp only [Vals.assign, parseStr_nbsmField _ _ hc.1 hc.2 hwid]
  · -- zstr
    have hz : zstrField (v.s f.src) f.width = v.s f.src := by
      rw [zstrField_fit _ _ (by omega) hwid]; simp [hc.2]
    have ht := trimSpace_padded (v.s f.src) 0 0 hc.1
    simp only [List.replicate_zero, List.nil_append, List.append_nil] at ht
    simp only [Vals.assign, hz, parseStr, ht]
  · -- date
    simp only [Vals.assign, parseDate_fmtDate _ hc]
  · -- time
    simp only [Vals.assign, parseTime_fmtTime _ hc.1 hc.2]
  · -- numericBlankNonPos
    by_cases hz : v.i f.src ≤ 0
    · have h0 : v.i f.src = 0 := by omega
      simp [Vals.assign, parseNum_blanks, h0]
    · simp only [hz, if_false, Vals.assign, parseNum_numericField _ _ hc.1 hc.2.1 hc.2.2 hwid]
  · -- dateBlankZero
    have hw8 : f.width = 8 := by simpa using hshape
    by_cases hz : (v.d f.src).isZero = true
    · have h0 : v.d f.src = Date.zero := by simpa [Date.isZero] using hz
      have hzz : Date.zero.isZero = true := by decide
      simp [Vals.assign, hw8, parseDate_blanks8, h0, hzz]
    · have hz' : (v.d f.src).isZero = false := by simpa using hz
      simp [Vals.assign, hz', parseDate_fmtDate _ hc]
  · -- alphaVar / str
    cases hvw : varWidth v f.lenField with
    | none =>
      have h0 : (v.s f.src).length = 0 := by have := hc.2.2; simp [widthOfLen, hvw] at this; simp [this]
      have hnil : v.s f.src = [] := List.eq_nil_of_length_eq_zero h0
      simp only [Vals.assign, hnil]; rfl
    | some n =>
      have hn := varWidth_lt v f.lenField n hvw
      have hle : (v.s f.src).length ≤ n := by have := hc.2.2; simpa [widthOfLen, hvw] using this
      simp only [Vals.assign, parseStr_alphaField _ _ hc.2.1 hle hn]
  · -- bytesVar
    exact varBytes_decodes v acc f.src f.lenField hc.2
  · -- image
    simp only [hc.2.1]
    exact varBytes_decodes v acc f.src f.lenField hc.2.2


/-! ### the static check of a `Parse()` body against the write table -/

def lookupB : List (String × String) → String → Option String
  | [], _ => none
  | (k, f) :: r, var => if k = var then some f else lookupB r var

def lookupAll (binds : List (String × String)) : List String → Option (List String)
  | [] => some []
  | x :: r =>
    match lookupB binds x, lookupAll binds r with
    | some a, some b => some (a :: b)
    | _, _ => none

/-- a slice bound of `Parse()` as a symbolic offset: its local variables replaced by the length members they hold -/
def symOf (binds : List (String × String)) (o : Off) : Option SymOff :=
  (lookupAll binds o.vars).map (fun ls => ⟨o.c, ls⟩)

/-- the environment `Parse()` has built when the record decodes to `v` -/
def envOf (v : Vals) (binds : List (String × String)) : Env := binds.map (fun p => (p.1, parseNum (v.s p.2)))

theorem envOf_get (v : Vals) (binds : List (String × String)) (var : String) :
    (envOf v binds).get var = match lookupB binds var with | some lf => parseNum (v.s lf) | none => 0 := by
  induction binds with
  | nil => simp [envOf, Env.get, lookupB]
  | cons p r ih =>
    obtain ⟨k, f⟩ := p
    simp only [envOf, List.map_cons, Env.get, lookupB]
    by_cases hk : k = var
    · simp [hk]
    · simp only [hk, if_false]; exact ih

theorem foldl_get (v : Vals) (binds : List (String × String)) :
    ∀ (vars ls : List String) (a : Int), lookupAll binds vars = some ls → (∀ lf ∈ ls, LenOK v lf) →
      vars.foldl (fun acc k => acc + (envOf v binds).get k) a = a + (sumW v ls : Int)
  | [], ls, a, h, _ => by
    simp only [lookupAll, Option.some.injEq] at h
    subst h; simp [sumW]
  | x :: r, ls, a, h, hl => by
    simp only [lookupAll] at h
    cases hx : lookupB binds x with
    | none => simp [hx] at h
    | some lf =>
      cases hr : lookupAll binds r with
      | none => simp [hx, hr] at h
      | some ls' =>
        simp only [hx, hr, Option.some.injEq] at h
        subst h
        have ih := foldl_get v binds r ls' (a + (envOf v binds).get x) hr (fun y hy => hl y (by simp [hy]))
        have hg : (envOf v binds).get x = parseNum (v.s lf) := by rw [envOf_get, hx]
        rw [List.foldl_cons, ih, hg, ← widthOfLen_of_lenOK v lf (hl lf (by simp))]
        simp only [sumW]
        omega

theorem eval_sym (v : Vals) (binds : List (String × String)) (o : Off) (so : SymOff) (h : symOf binds o = some so)
    (hl : ∀ lf ∈ so.lens, LenOK v lf) : o.eval (envOf v binds) = (so.val v : Int) := by
  unfold symOf at h
  cases hx : lookupAll binds o.vars with
  | none => simp [hx] at h
  | some ls =>
    simp only [hx, Option.map_some, Option.some.injEq] at h
    subst h
    simp only [Off.eval, SymOff.val]
    rw [foldl_get v binds o.vars ls _ hx hl]
    omega

structure PSt where
  binds : List (String × String) := []
  assigned : List String := []

def isStrKind : PKind → Bool
  | .str | .raw | .bytes => true
  | _ => false

def varLens (ws : List WField) : List String := (ws.filter (fun f => isVarConv f.conv)).map (·.lenField)

/-- one statement of `Parse()` checked against the write table `ws`: guards that the full rendering passes,
and every assignment decoding, with a decoder that inverts the getter, exactly the span of the written field
of the same member; `none` = not of that shape -/
def stmtStep (ws : List WField) (raws : List String) (st : PStmt) (σ : PSt) : Option PSt :=
  let sp := spans ws ⟨0, []⟩
  let E := endOff ws ⟨0, []⟩
  match st with
  | .guardRunes ne n => if (if ne then E.lens.isEmpty && n == E.c else decide (n ≤ E.c)) then some σ else none
  | .guardBytes n => if n ≤ E.c then some σ else none
  | .guardVar _ var le0 off =>
    match lookupB σ.binds var, symOf σ.binds off with
    | some lf, some so =>
      if !le0 && (varLens ws).contains lf && sp.any (fun p => p.1.next p.2 == so) then some σ else none
    | _, _ => none
  | .bind var field => if σ.assigned.contains field then some { σ with binds := (var, field) :: σ.binds } else none
  | .assign dst lo hi k _ =>
    match symOf σ.binds lo, symOf σ.binds hi with
    | some slo, some shi =>
      match sp.find? (fun p => p.1 == slo) with
      | some (o, f) =>
        if f.src == dst && shi == o.next f && compat raws f k then
          some { σ with assigned := if isStrKind k then dst :: σ.assigned else σ.assigned }
        else none
      | none => none
    | _, _ => none
  | .lit dst _ => if σ.assigned.contains dst then none else some σ
  | .setType => if σ.assigned.isEmpty then some σ else none
  | .opaque => none

def stmtsOK (ws : List WField) (raws : List String) : List PStmt → PSt → Bool
  | [], _ => true
  | st :: r, σ =>
    match stmtStep ws raws st σ with
    | some σ' => stmtsOK ws raws r σ'
    | none => false

/-- string members `Parse()` stores without trimming -/
def rawDsts (ps : List PStmt) : List String :=
  ps.filterMap (fun st => match st with | .assign dst _ _ .raw _ => some dst | _ => none)

def usesRunes : PStmt → Bool
  | .guardRunes _ _ => true
  | .guardVar false _ _ _ => true
  | _ => false

/-- the regenerated `Parse()` of a layout is straight-line over the columns its `String()` writes -/
def LayoutOK (L : RecLayout) : Bool :=
  AllWf L.write && stmtsOK L.write (rawDsts L.parse) L.parse {}

theorem varLens_mem (ws : List WField) (lf : String) (h : (varLens ws).contains lf = true) :
    ∃ g ∈ ws, isVarConv g.conv = true ∧ g.lenField = lf := by
  simp only [varLens, List.contains_iff_mem, List.mem_map, List.mem_filter] at h
  obtain ⟨g, ⟨hg, hv⟩, hl⟩ := h
  exact ⟨g, hg, hv, hl⟩

theorem endOff_lens_val (v : Vals) (o : SymOff) (h : o.lens.isEmpty = true) : o.val v = o.c := by
  have : o.lens = [] := List.isEmpty_iff.1 h
  simp [SymOff.val, this, sumW]


theorem ite_some_eq {α : Type} {c : Prop} [Decidable c] {a b : α} (h : (if c then some a else none) = some b) : c ∧ a = b := by
  by_cases hc : c <;> simp_all

theorem ite_none_eq {α : Type} {c : Prop} [Decidable c] {a b : α} (h : (if c then none else some a) = some b) : ¬ c ∧ a = b := by
  by_cases hc : c <;> simp_all

/-- members a `Parse()` body decodes from the record -/
def assignDsts (ps : List PStmt) : List String :=
  ps.filterMap (fun st => match st with | .assign dst _ _ _ _ => some dst | _ => none)

/-- the fields whose values matter for the round trip: variable sections, and members `Parse()` decodes
(a written member `Parse()` sets to a constant - blank `reserved` columns - may hold anything) -/
def Relevant (dsts : List String) (f : WField) : Prop := isVarConv f.conv = true ∨ f.src ∈ dsts

theorem lenIsSym_of_fixed (b64 : Bytes → Option Bytes) (f : WField) (v : Vals) (h : isVarConv f.conv = false) :
    LenIsSym b64 f v := by
  unfold LenIsSym lenOf
  cases hc : f.conv <;> simp [hc, isVarConv] at h ⊢

theorem lenIsSym_all (b64 : Bytes → Option Bytes) (raws dsts : List String) (ws : List WField) (v : Vals)
    (hcanon : ∀ f ∈ ws, Relevant dsts f → CanonField b64 raws f v) : ∀ g ∈ ws, LenIsSym b64 g v := by
  intro g hg
  cases hv : isVarConv g.conv
  · exact lenIsSym_of_fixed b64 g v hv
  · exact canon_lenIsSym b64 raws g v (hcanon g hg (Or.inl hv))

theorem spans_var_lenOK (b64 : Bytes → Option Bytes) (raws dsts : List String) (ws : List WField) (v : Vals)
    (hcanon : ∀ f ∈ ws, Relevant dsts f → CanonField b64 raws f v) (o : SymOff) (f : WField) (h : (o, f) ∈ spans ws ⟨0, []⟩) :
    (∀ lf ∈ o.lens, LenOK v lf) ∧ (∀ lf ∈ (o.next f).lens, LenOK v lf) := by
  obtain ⟨h1, h2⟩ := spans_lens ws ⟨0, []⟩ o f h
  refine ⟨fun lf hlf => ?_, fun lf hlf => ?_⟩
  · rcases h1 lf hlf with hx | ⟨g, hg, hv, hl⟩
    · simp at hx
    · rw [← hl]; exact canon_lenOK b64 raws g v (hcanon g hg (Or.inl hv)) hv
  · rcases h2 lf hlf with hx | ⟨g, hg, hv, hl⟩
    · simp at hx
    · rw [← hl]; exact canon_lenOK b64 raws g v (hcanon g hg (Or.inl hv)) hv

/-- the decode flags of the assignments of a `Parse()` body are the ones `DcOK` admits for the field they decode -/
def FlagsOK (DcOK : WField → Bool → Prop) (ws : List WField) (ps : List PStmt) : Prop :=
  ∀ dst lo hi k dc, PStmt.assign dst lo hi k dc ∈ ps → ∀ f ∈ ws, f.src = dst → DcOK f dc

/-- **parsing a carrier of the rendering of a canonical record replays the record** (general form): `R` is any
byte string of the rendering's length in which the span of every field holds bytes that the reader's slice
decoder `dec` (applied or not, as the statement's flag says and `DcOK` admits) turns into the field's rendering.
ASCII: `R` is the rendering itself and `dec = id`; EBCDIC record 52: `R` is the transliterated text followed
by the raw image bytes and `dec` the code-page decoder. -/
theorem parse_render_gen (b64 : Bytes → Option Bytes) (now : Date) (sty : List SetAct) (ws : List WField) (v : Vals)
    (raws dsts : List String) (hwf : AllWf ws = true) (ht : TypeSet v)
    (hcanon : ∀ f ∈ ws, Relevant dsts f → CanonField b64 raws f v)
    (dec : Bytes → Bytes) (R : Bytes) (DcOK : WField → Bool → Prop)
    (hRlen : R.length = (render b64 ws true v).length)
    (hRslice : ∀ (o : SymOff) (f : WField) (pre post : Bytes), (o, f) ∈ spans ws ⟨0, []⟩ →
      render b64 ws true v = pre ++ renderField b64 f v ++ post → pre.length = o.val v →
      ∃ x, slice? R (pre.length : Int) ((pre.length + (renderField b64 f v).length : Nat) : Int) = some x ∧
        ∀ dc, DcOK f dc → (if dc = true then dec x else x) = renderField b64 f v) :
    ∀ (ps : List PStmt) (σ : PSt) (acc : Vals),
      (∀ d ∈ assignDsts ps, d ∈ dsts) →
      (∀ st ∈ ps, usesRunes st = true → runeCount R = R.length) →
      FlagsOK DcOK ws ps →
      (∀ d ∈ σ.assigned, acc.s d = v.s d) →
      stmtsOK ws raws ps σ = true →
      parseStmts dec now sty R ps (envOf v σ.binds) acc = .done (replay now sty v ps acc)
  | [], σ, acc, _, _, _, _, _ => by simp [parseStmts, replay]
  | st :: rest, σ, acc, hds, hr, hfl, hag, hok => by
    have hsym : ∀ g ∈ ws, LenIsSym b64 g v := lenIsSym_all b64 raws dsts ws v hcanon
    have hE := endOff_val b64 v ht ws ⟨0, []⟩ hwf hsym
    have hE0 : (⟨0, []⟩ : SymOff).val v = 0 := by simp [SymOff.val, sumW]
    have hEc : (endOff ws ⟨0, []⟩).c ≤ (render b64 ws true v).length := by
      rw [hE0, Nat.zero_add] at hE
      rw [← hE]; unfold SymOff.val; omega
    simp only [stmtsOK] at hok
    cases hstep : stmtStep ws raws st σ with
    | none => simp [hstep] at hok
    | some σ' =>
      simp only [hstep] at hok
      have hds' : ∀ d ∈ assignDsts rest, d ∈ dsts := by
        intro d hd
        apply hds d
        unfold assignDsts at hd ⊢
        rw [List.filterMap_cons]
        split
        · exact hd
        · exact List.mem_cons_of_mem _ hd
      have hfl' : FlagsOK DcOK ws rest := by
        intro dst lo hi k dc hm f hf hs
        exact hfl dst lo hi k dc (List.mem_cons_of_mem _ hm) f hf hs
      have ih := fun acc' hag' => parse_render_gen b64 now sty ws v raws dsts hwf ht hcanon dec R DcOK hRlen hRslice rest σ' acc' hds'
        (fun x hx => hr x (by simp [hx])) hfl' hag' hok
      cases st with
      | guardRunes ne n =>
        have hrn := hr (.guardRunes ne n) (by simp) rfl
        simp only [stmtStep] at hstep
        · obtain ⟨hc, hstep⟩ := ite_some_eq hstep
          subst hstep
          simp only [parseStmts, hrn, hRlen]
          have : ¬ (if ne = true then (render b64 ws true v).length ≠ n else (render b64 ws true v).length < n) := by
            cases ne with
            | true =>
              simp only [if_true, Bool.and_eq_true, beq_iff_eq] at hc ⊢
              have := endOff_lens_val v _ hc.1
              rw [hE0, Nat.zero_add] at hE
              omega
            | false =>
              simp only [Bool.false_eq_true, if_false, decide_eq_true_eq] at hc ⊢
              omega
          simp only [this, if_false]
          rw [ih acc hag]; simp [replay, replayStmt]
      | guardBytes n =>
        simp only [stmtStep] at hstep
        · obtain ⟨hc, hstep⟩ := ite_some_eq hstep
          subst hstep
          simp only [parseStmts, hRlen]
          have : ¬ ((render b64 ws true v).length < n) := by omega
          simp only [this, if_false]
          rw [ih acc hag]; simp [replay, replayStmt]
      | guardVar bytes var le0 off =>
        simp only [stmtStep] at hstep
        cases hlv : lookupB σ.binds var with
        | none => simp [hlv] at hstep
        | some lf =>
          cases hso : symOf σ.binds off with
          | none => simp [hlv, hso] at hstep
          | some so =>
            simp only [hlv, hso] at hstep
            · obtain ⟨hc, hstep⟩ := ite_some_eq hstep
              subst hstep
              simp only [Bool.and_eq_true, Bool.not_eq_true', List.any_eq_true] at hc
              obtain ⟨⟨hle0, hvl⟩, ⟨p, hp, hpe⟩⟩ := hc
              obtain ⟨g, hg, hgv, hgl⟩ := varLens_mem ws lf hvl
              have hlok : LenOK v lf := by rw [← hgl]; exact canon_lenOK b64 raws g v (hcanon g hg (Or.inl hgv)) hgv
              have hpe' : p.1.next p.2 = so := by simpa using hpe
              obtain ⟨pre, post, h1, h2, h3⟩ := span_split b64 v ht ws ⟨0, []⟩ p.1 p.2 hwf hsym hp
              have hlens := (spans_var_lenOK b64 raws dsts ws v hcanon p.1 p.2 hp).2
              rw [hpe'] at hlens h3
              have hev := eval_sym v σ.binds off so hso hlens
              have hx : (envOf v σ.binds).get var = parseNum (v.s lf) := by rw [envOf_get, hlv]
              have hlen : so.val v ≤ (render b64 ws true v).length := by
                rw [h1, h3]; simp only [List.length_append]; rw [hE0] at h2; omega
              have hcnt : (if bytes = true then (R.length : Int) else (runeCount R : Int)) =
                  ((render b64 ws true v).length : Int) := by
                cases bytes with
                | true => simp [hRlen]
                | false =>
                  have := hr (.guardVar false var le0 off) (by simp) rfl
                  simp [this, hRlen]
              simp only [parseStmts, hx, hev, hcnt, hle0, Bool.false_eq_true, if_false]
              have : ¬ (parseNum (v.s lf) < 0 ∨ ((render b64 ws true v).length : Int) < (so.val v : Int)) := by
                have := hlok.1; omega
              simp only [this, if_false]
              rw [ih acc hag]; simp [replay, replayStmt]
      | bind var field =>
        simp only [stmtStep] at hstep
        · obtain ⟨hc, hstep⟩ := ite_some_eq hstep
          subst hstep
          have hf : acc.s field = v.s field := hag field (by simpa using hc)
          simp only [parseStmts, hf]
          have := ih acc hag
          simp only [envOf, List.map_cons] at this ⊢
          rw [this]; simp [replay, replayStmt]
      | assign dst lo hi k dc =>
        simp only [stmtStep] at hstep
        cases hlo : symOf σ.binds lo with
        | none => simp [hlo] at hstep
        | some slo =>
          cases hhi : symOf σ.binds hi with
          | none => simp [hlo, hhi] at hstep
          | some shi =>
            simp only [hlo, hhi] at hstep
            cases hfind : (spans ws ⟨0, []⟩).find? (fun p => p.1 == slo) with
            | none => simp [hfind] at hstep
            | some p =>
              obtain ⟨o, f⟩ := p
              simp only [hfind] at hstep
              · obtain ⟨hc, hstep⟩ := ite_some_eq hstep
                subst hstep
                simp only [Bool.and_eq_true, beq_iff_eq] at hc
                obtain ⟨⟨hsrc, hshi⟩, hcompat⟩ := hc
                have hmem : (o, f) ∈ spans ws ⟨0, []⟩ := List.mem_of_find?_eq_some hfind
                have hoe : o = slo := by
                  have := List.find?_some hfind
                  simpa using this
                have hfw : f ∈ ws := by
                  have : ∀ (ws : List WField) (o0 : SymOff), (o, f) ∈ spans ws o0 → f ∈ ws := by
                    intro ws
                    induction ws with
                    | nil => intro o0 h; simp [spans] at h
                    | cons g r ihh =>
                      intro o0 h
                      simp only [spans, List.mem_cons, Prod.mk.injEq] at h
                      rcases h with ⟨_, hf⟩ | h
                      · simp [hf]
                      · exact List.mem_cons_of_mem _ (ihh _ h)
                  exact this ws _ hmem
                have hwfF : WfW f = true := by
                  simp only [AllWf, List.all_eq_true] at hwf; exact hwf f hfw
                obtain ⟨pre, post, h1, h2, h3⟩ := span_split b64 v ht ws ⟨0, []⟩ o f hwf hsym hmem
                obtain ⟨hl1, hl2⟩ := spans_var_lenOK b64 raws dsts ws v hcanon o f hmem
                have hdst : dst ∈ dsts := hds dst (by simp [assignDsts])
                have elo : lo.eval (envOf v σ.binds) = (pre.length : Int) := by
                  rw [eval_sym v σ.binds lo slo hlo (by rw [← hoe]; exact hl1), ← hoe]
                  rw [hE0] at h2; omega
                have ehi : hi.eval (envOf v σ.binds) = ((pre.length + (renderField b64 f v).length : Nat) : Int) := by
                  rw [eval_sym v σ.binds hi shi hhi (by rw [hshi]; exact hl2), hshi, h3]
                  rw [hE0] at h2; omega
                obtain ⟨x, hslx, hdcx⟩ := hRslice o f pre post hmem h1 (by rw [hE0] at h2; omega)
                have hsl : slice? R (lo.eval (envOf v σ.binds)) (hi.eval (envOf v σ.binds)) = some x := by
                  rw [elo, ehi]; exact hslx
                simp only [parseStmts, hsl]
                have hd : (if dc = true then dec x else x) = renderField b64 f v :=
                  hdcx dc (hfl dst lo hi k dc (by simp) f hfw hsrc)
                rw [hd, ← hsrc, assign_decodes b64 raws now sty f v acc k lo hi dc hwfF hcompat (hcanon f hfw (Or.inr (hsrc ▸ hdst)))]
                rw [ih]
                · simp [replay]
                · intro d hd
                  cases k <;> simp only [isStrKind, if_true, Bool.false_eq_true, if_false, List.mem_cons] at hd <;>
                    simp only [replayStmt, Vals.setS, Vals.setI, Vals.setD, Vals.setT]
                  · exact hag d hd
                  · by_cases hdd : d = f.src
                    · simp [hdd]
                    · simp only [hdd, if_false]; exact hag d (by rcases hd with h | h; exact absurd (hsrc ▸ h) hdd; exact h)
                  · exact hag d hd
                  · exact hag d hd
                  · by_cases hdd : d = f.src
                    · simp [hdd]
                    · simp only [hdd, if_false]; exact hag d (by rcases hd with h | h; exact absurd (hsrc ▸ h) hdd; exact h)
                  · by_cases hdd : d = f.src
                    · simp [hdd]
                    · simp only [hdd, if_false]; exact hag d (by rcases hd with h | h; exact absurd (hsrc ▸ h) hdd; exact h)
      | lit dst b =>
        simp only [stmtStep] at hstep
        · obtain ⟨hc, hstep⟩ := ite_none_eq hstep
          subst hstep
          simp only [parseStmts]
          rw [ih]
          · simp [replay, replayStmt]
          · intro d hd
            have : d ≠ dst := by
              intro h; subst h
              exact hc (by simpa using hd)
            simp only [Vals.setS, this, if_false]; exact hag d hd
      | setType =>
        simp only [stmtStep] at hstep
        · obtain ⟨hc, hstep⟩ := ite_some_eq hstep
          subst hstep
          simp only [parseStmts]
          rw [ih]
          · simp [replay, replayStmt]
          · intro d hd
            have : σ.assigned = [] := List.isEmpty_iff.1 hc
            rw [this] at hd; cases hd
      | «opaque» => simp [stmtStep] at hstep


/-- **parsing the rendering of a canonical record replays the record**: for a `Parse()` that passes the
static check against the write table, on the rendering of a value whose fields are canonical -/
theorem parse_render (b64 : Bytes → Option Bytes) (now : Date) (sty : List SetAct) (ws : List WField) (v : Vals)
    (raws dsts : List String) (hwf : AllWf ws = true) (ht : TypeSet v)
    (hcanon : ∀ f ∈ ws, Relevant dsts f → CanonField b64 raws f v)
    (ps : List PStmt) (σ : PSt) (acc : Vals)
    (hds : ∀ d ∈ assignDsts ps, d ∈ dsts)
    (hr : ∀ st ∈ ps, usesRunes st = true → runeCount (render b64 ws true v) = (render b64 ws true v).length)
    (hag : ∀ d ∈ σ.assigned, acc.s d = v.s d) (hok : stmtsOK ws raws ps σ = true) :
    parseStmts id now sty (render b64 ws true v) ps (envOf v σ.binds) acc = .done (replay now sty v ps acc) := by
  refine parse_render_gen b64 now sty ws v raws dsts hwf ht hcanon id (render b64 ws true v) (fun _ _ => True) rfl ?_
    ps σ acc hds hr (fun _ _ _ _ _ _ _ _ _ => trivial) hag hok
  intro o f pre post _ h1 _
  refine ⟨renderField b64 f v, ?_, ?_⟩
  · rw [h1]; exact slice?_mid pre _ post
  · intro dc _; cases dc <;> rfl

end Icl
