/-
The simulation invariant of the concurrent API model (IclModel/Conc.lean): at every point of every
schedule the store is the result of running, one after the other, the requests that have passed their
linearization point, in the order in which they passed it.
-/
import IclModel.Conc
import IclModel.Lemmas.Api
import IclModel.Props.C11
namespace Icl.Api
open Spec

theorem runHistory_append' (s : Store) (a b : List Req) :
    runHistory s (a ++ b) = ((runHistory (runHistory s a).1 b).1, (runHistory s a).2 ++ (runHistory (runHistory s a).1 b).2) := by
  induction a generalizing s with
  | nil => simp [runHistory]
  | cons r a ih => simp [runHistory, ih]

theorem runHistory_snoc (s0 s : Store) (l : List Req) (os : List Resp) (r : Req)
    (h : runHistory s0 l = (s, os)) :
    runHistory s0 (l ++ [r]) = ((step s r).1, os ++ [(step s r).2]) := by
  rw [runHistory_append', h]
  simp [runHistory]

/-- no two v2 creates share their generated ID, and none collides with an ID that a read-modify-write
request addresses (the server draws them with uuid.NewString) -/
def FreshOK (reqs : List Req) : Prop :=
  ∀ (i j : Nat) ri ct u fr a, reqs[i]? = some ri → reqs[j]? = some (Req.createV2 ct u fr a) → kind ri = .rmw → fr ≠ rmwId ri

/-- the second half of a read-modify-write handler, run on what GetFile returns now, is the handler -/
theorem applyRMW_eq_step (r : Req) (s : Store) (hk : kind r = .rmw) :
    applyRMW r (getFile s (rmwId r)) s = step s r := by
  cases r with
  | list => simp [kind] at hk
  | get id => simp [kind] at hk
  | contents id => simp [kind] at hk
  | validate id => simp [kind] at hk
  | createV2 ct u fr a => simp [kind] at hk
  | createV1 ct u fr => simp only [kind] at hk; split at hk <;> simp at hk
  | updateHeader id h =>
    simp only [kind] at hk
    split at hk
    · simp at hk
    · rename_i hc
      simp only [not_or] at hc
      cases h with
      | none => simp at hc
      | some hv =>
        simp only [rmwId, step, handler, hUpdateHeader, routed, List.any_cons, List.any_nil, Bool.or_false,
          decide_eq_true_eq, hc.1, if_false, Prog.run]
        cases getFile s id with
        | none => simp [applyRMW, Prog.run]
        | some f => simp only [applyRMW, Prog.run]; cases saveFile s { f with hdr := hv } <;> simp [Prog.run]
  | addCL id c =>
    simp only [kind] at hk
    split at hk
    · simp at hk
    · rename_i hc
      simp only [not_or] at hc
      cases c with
      | none => simp at hc
      | some cv =>
        simp only [rmwId, step, handler, hAddCL, routed, List.any_cons, List.any_nil, Bool.or_false,
          decide_eq_true_eq, hc.1, if_false, Prog.run]
        cases getFile s id with
        | none => simp [applyRMW, Prog.run]
        | some f => simp only [applyRMW, Prog.run]; cases saveFile s { f with cls := f.cls ++ [cv] } <;> simp [Prog.run]
  | delete id =>
    simp only [kind] at hk
    split at hk
    · simp at hk
    · rename_i hc
      simp only [rmwId, step, handler, hDelete, routed, List.any_cons, List.any_nil, Bool.or_false,
        decide_eq_true_eq, hc, if_false, Prog.run]
      cases getFile s id with
      | none => simp [applyRMW, Prog.run]
      | some f => simp only [applyRMW, Prog.run]; cases deleteFile s id <;> simp [Prog.run]
  | removeCL id cid =>
    simp only [kind] at hk
    split at hk
    · simp at hk
    · rename_i hc
      simp only [not_or] at hc
      simp only [rmwId, step, handler, hRemoveCL, routed, List.any_cons, List.any_nil, Bool.or_false,
        decide_eq_true_eq, hc.1, hc.2, Bool.or_eq_true, or_self, if_false, Prog.run]
      cases getFile s id with
      | none => simp [applyRMW, Prog.run]
      | some f =>
        simp only [applyRMW, Prog.run]
        cases saveFile s { f with cls := f.cls.filter (fun c => c.id ≠ cid) } <;> simp [Prog.run]

/-- a handler that takes no lock changes the store only when it is the v2 create -/
theorem unlocked_store (r : Req) (s : Store) (hk : kind r = .unlocked) :
    (step s r).1 = s ∨ ∃ ct u fr a, r = .createV2 ct u fr a := by
  cases r with
  | list => exact .inl rfl
  | get id => left; simp only [step, handler, hGet, routed]; split <;> simp [Prog.run]; cases getFile s id <;> rfl
  | contents id => left; simp only [step, handler, hContents, routed]; split <;> simp [Prog.run]; cases getFile s id <;> rfl
  | validate id => left; simp only [step, handler, hValidate, routed]; split <;> simp [Prog.run]; cases getFile s id <;> rfl
  | createV2 ct u fr a => exact .inr ⟨ct, u, fr, a, rfl⟩
  | createV1 ct u fr =>
    left
    simp only [kind] at hk
    split at hk
    · simp at hk
    · rename_i hc
      have hn : v1Parsed ct u = none := by
        cases h : v1Parsed ct u with
        | none => rfl
        | some f => simp [h] at hc
      simp [step, handler, hCreateV1, hn, Prog.run]
  | updateHeader id h =>
    left
    simp only [kind] at hk
    split at hk
    · rename_i hc
      simp only [step, handler, hUpdateHeader, routed]
      rcases hc with hc | hc
      · simp [hc, Prog.run]
      · cases h with
        | none => split <;> simp [Prog.run]
        | some _ => simp at hc
    · simp at hk
  | addCL id c =>
    left
    simp only [kind] at hk
    split at hk
    · rename_i hc
      simp only [step, handler, hAddCL, routed]
      rcases hc with hc | hc
      · simp [hc, Prog.run]
      · cases c with
        | none => split <;> simp [Prog.run]
        | some _ => simp at hc
    · simp at hk
  | delete id =>
    left
    simp only [kind] at hk
    split at hk
    · rename_i hc; simp [step, handler, hDelete, routed, hc, Prog.run]
    · simp at hk
  | removeCL id cid =>
    left
    simp only [kind] at hk
    split at hk
    · rename_i hc
      simp only [step, handler, hRemoveCL, routed]
      rcases hc with hc | hc <;> simp [hc, Prog.run]
    · simp at hk

/-- the v2 create leaves every other ID as it was -/
theorem createV2_frame (s : Store) (hs : Inv s) (ct : CT) (u : Upload) (fr : String) (a : Accept) (id : String)
    (hne : fr ≠ id) : getFile (step s (.createV2 ct u fr a)).1 id = getFile s id := by
  have hi := C11_inv s hs (.createV2 ct u fr a)
  rw [getFile_eq_lookup _ hi, getFile_eq_lookup _ hs, C11_step s hs]
  exact C11_other_files_untouched s hs _ id (by simp [Req.target]; exact hne)

structure Good (reqs : List Req) (s0 : Store) (c : Conc) : Prop where
  inv : Inv c.store
  lin : runHistory s0 (c.linReqs reqs) = (c.store, c.log.map (·.2))
  holder : ∀ (i : Nat) t, c.ths[i]? = some t → (t = Th.locked ∨ (∃ v, t = Th.got v) ∨ (∃ ρ, t = Th.committed ρ)) → c.lock = some i
  lockedKind : ∀ (i : Nat), c.ths[i]? = some Th.locked → ∃ r, reqs[i]? = some r ∧ kind r ≠ .unlocked
  gotOk : ∀ (i : Nat) v, c.ths[i]? = some (Th.got v) → ∃ r, reqs[i]? = some r ∧ kind r = .rmw ∧ getFile c.store (rmwId r) = v
  logTh : ∀ e ∈ c.log, c.ths[e.1]? = some (Th.committed e.2) ∨ c.ths[e.1]? = some (Th.done e.2)
  thLog : ∀ (i : Nat) ρ, (c.ths[i]? = some (Th.committed ρ) ∨ c.ths[i]? = some (Th.done ρ)) → (i, ρ) ∈ c.log
  nodup : (c.log.map (·.1)).Nodup
  logReq : ∀ e ∈ c.log, ∃ r, reqs[e.1]? = some r

theorem good_init (reqs : List Req) (s0 : Store) (hs : Inv s0) : Good reqs s0 (Conc.init s0 reqs.length) := by
  refine ⟨hs, rfl, ?_, ?_, ?_, ?_, ?_, ?_, ?_⟩ <;> simp [Conc.init, List.getElem?_replicate]
  all_goals (first | done | (intro i t h1 h2; rcases h2 with h | ⟨v, h⟩ | ⟨ρ, h⟩ <;> simp_all) | (intros; simp_all))

theorem getElem?_set' {α : Type} (l : List α) (i j : Nat) (a b : α) (h : l[i]? = some b) :
    (l.set i a)[j]? = if j = i then some a else l[j]? := by
  have hlt : i < l.length := by
    rcases List.getElem?_eq_some_iff.1 h with ⟨h', _⟩; exact h'
  rw [List.getElem?_set]
  by_cases hij : i = j
  · subst hij; simp [hlt]
  · have : ¬ j = i := fun e => hij e.symm
    simp [hij, this]

/-- the generic linearization step: thread `i` (not yet committed) performs its last repository action,
which on the current store is the whole handler -/
theorem good_commit (reqs : List Req) (s0 : Store) (c : Conc) (g : Good reqs s0 c) (i : Nat) (t t' : Th) (r : Req)
    (hti : c.ths[i]? = some t) (hri : reqs[i]? = some r)
    (hpre : t = .ready ∨ t = .locked ∨ ∃ v, t = .got v)
    (ht' : (t' = .done (step c.store r).2 ∧ t = .ready) ∨ (t' = .committed (step c.store r).2 ∧ t ≠ .ready))
    (hstable : ∀ j v rj, j ≠ i → c.ths[j]? = some (.got v) → reqs[j]? = some rj →
        getFile (step c.store r).1 (rmwId rj) = getFile c.store (rmwId rj)) :
    Good reqs s0 { c with store := (step c.store r).1, ths := c.ths.set i t', log := c.log ++ [(i, (step c.store r).2)] } := by
  have hset := fun j => getElem?_set' c.ths i j t' t hti
  have hnotlog : i ∉ c.log.map (·.1) := by
    intro hm
    rcases List.mem_map.1 hm with ⟨e, he, hei⟩
    have := g.logTh e he
    rw [hei, hti] at this
    rcases hpre with h | h | ⟨v, h⟩ <;> subst h <;> simp at this
  refine ⟨C11_inv c.store g.inv r, ?_, ?_, ?_, ?_, ?_, ?_, ?_, ?_⟩
  · -- lin
    have : Conc.linReqs reqs { c with store := (step c.store r).1, ths := c.ths.set i t', log := c.log ++ [(i, (step c.store r).2)] }
        = c.linReqs reqs ++ [r] := by
      simp [Conc.linReqs, List.filterMap_append, hri]
    rw [this, runHistory_snoc s0 c.store _ _ r g.lin]
    simp
  · -- holder
    intro j tj hj hk
    simp only [hset] at hj
    by_cases hji : j = i
    · subst hji
      simp only [if_true, Option.some.injEq] at hj
      subst hj
      rcases ht' with ⟨h1, _⟩ | ⟨h1, h2⟩
      · subst h1; rcases hk with h | ⟨v, h⟩ | ⟨ρ, h⟩ <;> simp at h
      · refine g.holder j t hti ?_
        rcases hpre with h | h | ⟨v, h⟩
        · exact absurd h h2
        · exact .inl h
        · exact .inr (.inl ⟨v, h⟩)
    · simp only [hji, if_false] at hj
      exact g.holder j tj hj hk
  · -- lockedKind
    intro j hj
    simp only [hset] at hj
    by_cases hji : j = i
    · subst hji
      simp only [if_true, Option.some.injEq] at hj
      rcases ht' with ⟨h1, _⟩ | ⟨h1, _⟩ <;> rw [h1] at hj <;> simp at hj
    · simp only [hji, if_false] at hj
      exact g.lockedKind j hj
  · -- gotOk
    intro j v hj
    simp only [hset] at hj
    by_cases hji : j = i
    · subst hji
      simp only [if_true, Option.some.injEq] at hj
      rcases ht' with ⟨h1, _⟩ | ⟨h1, _⟩ <;> rw [h1] at hj <;> simp at hj
    · simp only [hji, if_false] at hj
      obtain ⟨rj, h1, h2, h3⟩ := g.gotOk j v hj
      exact ⟨rj, h1, h2, by rw [hstable j v rj hji hj h1]; exact h3⟩
  · -- logTh
    intro e he
    simp only [List.mem_append, List.mem_singleton] at he
    simp only [hset]
    rcases he with he | he
    · have hne : e.1 ≠ i := fun h => hnotlog (List.mem_map.2 ⟨e, he, h⟩)
      simp only [hne, if_false]
      exact g.logTh e he
    · subst he
      simp only [if_true]
      rcases ht' with ⟨h1, _⟩ | ⟨h1, _⟩ <;> simp [h1]
  · -- thLog
    intro j ρ hj
    simp only [hset] at hj
    by_cases hji : j = i
    · subst hji
      simp only [if_true, Option.some.injEq] at hj
      rcases ht' with ⟨h1, _⟩ | ⟨h1, _⟩ <;> rw [h1] at hj <;> simp at hj <;> simp [hj]
    · simp only [hji, if_false] at hj
      exact List.mem_append_left _ (g.thLog j ρ hj)
  · -- nodup
    simp only [List.map_append, List.map_cons, List.map_nil]
    rw [List.nodup_append]
    refine ⟨g.nodup, by simp, ?_⟩
    intro a ha b hb
    simp only [List.mem_singleton] at hb
    subst hb
    exact fun h => hnotlog (h ▸ ha)
  · -- logReq
    intro e he
    simp only [List.mem_append, List.mem_singleton] at he
    rcases he with he | he
    · exact g.logReq e he
    · subst he; exact ⟨r, hri⟩

/-- a step that changes neither the store nor the log -/
theorem good_local (reqs : List Req) (s0 : Store) (c : Conc) (g : Good reqs s0 c) (i : Nat) (t t' : Th) (lk : Option Nat)
    (hti : c.ths[i]? = some t)
    (hholder : (t' = .locked ∨ (∃ v, t' = .got v) ∨ (∃ ρ, t' = .committed ρ)) → lk = some i)
    (hothers : ∀ j tj, j ≠ i → c.ths[j]? = some tj → (tj = .locked ∨ (∃ v, tj = .got v) ∨ (∃ ρ, tj = .committed ρ)) → lk = some j)
    (hlocked : t' = .locked → ∃ r, reqs[i]? = some r ∧ kind r ≠ .unlocked)
    (hgot : ∀ v, t' = .got v → ∃ r, reqs[i]? = some r ∧ kind r = .rmw ∧ getFile c.store (rmwId r) = v)
    (hlog : ∀ ρ, (t = .committed ρ ∨ t = .done ρ) ↔ (t' = .committed ρ ∨ t' = .done ρ)) :
    Good reqs s0 { c with lock := lk, ths := c.ths.set i t' } := by
  have hset := fun j => getElem?_set' c.ths i j t' t hti
  refine ⟨g.inv, g.lin, ?_, ?_, ?_, ?_, ?_, g.nodup, g.logReq⟩
  · intro j tj hj hk
    simp only [hset] at hj
    by_cases hji : j = i
    · subst hji; simp only [if_true, Option.some.injEq] at hj; subst hj; exact hholder hk
    · simp only [hji, if_false] at hj; exact hothers j tj hji hj hk
  · intro j hj
    simp only [hset] at hj
    by_cases hji : j = i
    · subst hji; simp only [if_true, Option.some.injEq] at hj; exact hlocked hj
    · simp only [hji, if_false] at hj; exact g.lockedKind j hj
  · intro j v hj
    simp only [hset] at hj
    by_cases hji : j = i
    · subst hji; simp only [if_true, Option.some.injEq] at hj; exact hgot v hj
    · simp only [hji, if_false] at hj; exact g.gotOk j v hj
  · intro e he
    simp only [hset]
    by_cases hei : e.1 = i
    · simp only [hei, if_true]
      have := g.logTh e he
      rw [hei, hti] at this
      simp only [Option.some.injEq] at this ⊢
      rcases (hlog e.2).1 this with h | h <;> simp [h]
    · simp only [hei, if_false]; exact g.logTh e he
  · intro j ρ hj
    simp only [hset] at hj
    by_cases hji : j = i
    · subst hji
      simp only [if_true, Option.some.injEq] at hj
      have : t = .committed ρ ∨ t = .done ρ := (hlog ρ).2 (by rcases hj with h | h <;> simp [h])
      exact g.thLog j ρ (by rw [hti]; simpa using this)
    · simp only [hji, if_false] at hj; exact g.thLog j ρ hj

end Icl.Api
