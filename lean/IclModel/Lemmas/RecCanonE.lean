/-
C01's per-record premise under EBCDIC, for every record kind whose line the reader decodes as a whole
(all kinds but 52): when every byte of the ASCII rendering is a character the code page carries and gives
back (`safeB`, decidable per byte on the regenerated CP037 table), the EBCDIC body is the byte-for-byte
transliteration, the reader's decoder inverts it, and the ASCII result (`RecCanon.lean`) applies.
-/
import IclModel.Lemmas.RecCanon
import IclModel.Lemmas.Ebcdic
import IclModel.Lemmas.WriterLink
namespace Icl.C01
open Icl Icl.C04

/-- a byte of an ASCII rendering that survives the code page: ASCII, decoded back from its EBCDIC byte to itself,
and not one of the three EBCDIC bytes the FRB compatibility mode rewrites in addendum A lines -/
def safeB (cm : Charmap) (b : UInt8) : Bool :=
  b < 0x80 && utf8Encode (cm.dec.getD (cm.encRune b.toNat).toNat 0xFFFD) == [b] &&
    cm.encRune b.toNat != 0xAD && cm.encRune b.toNat != 0xBD && cm.encRune b.toNat != 0x5F

def enc1 (cm : Charmap) (b : UInt8) : UInt8 := cm.encRune b.toNat

theorem safe_isAscii (cm : Charmap) (s : Bytes) (h : s.all (safeB cm) = true) : isAscii s = true := by
  simp only [isAscii, List.all_eq_true] at h ⊢
  intro b hb
  have := h b hb
  simp only [safeB, Bool.and_eq_true, decide_eq_true_eq] at this
  simpa using this.1.1.1.1

theorem decode_enc (cm : Charmap) (s : Bytes) (h : s.all (safeB cm) = true) : cm.decode (s.map (enc1 cm)) = s := by
  induction s with
  | nil => rfl
  | cons b r ih =>
    simp only [List.all_cons, Bool.and_eq_true] at h
    have hb := h.1
    simp only [safeB, Bool.and_eq_true, beq_iff_eq] at hb
    have ih' := ih h.2
    simp only [Charmap.decode, List.map_cons, List.flatMap_cons] at ih' ⊢
    rw [ih']
    simp only [enc1]
    rw [hb.1.1.1.2]
    rfl

theorem ibm1047_enc (cm : Charmap) (frb : Bool) (s : Bytes) (h : s.all (safeB cm) = true) :
    ibm1047 frb (s.map (enc1 cm)) = s.map (enc1 cm) := by
  unfold ibm1047
  cases frb with
  | false => rfl
  | true =>
    simp only [if_true]
    induction s with
    | nil => rfl
    | cons b r ih =>
      simp only [List.all_cons, Bool.and_eq_true] at h
      have hb := h.1
      simp only [safeB, Bool.and_eq_true, bne_iff_ne, ne_eq] at hb
      simp only [List.map_cons, ih h.2, enc1]
      have h1 : (cm.encRune b.toNat == 0xAD) = false := by simpa using hb.1.1.2
      have h2 : (cm.encRune b.toNat == 0xBD) = false := by simpa using hb.1.2
      have h3 : (cm.encRune b.toNat == 0x5F) = false := by simpa using hb.2
      simp [h1, h2, h3]

/-- the code page writes the ten digits as 0xF0..0xF9 (so that type codes keep their EBCDIC spelling) -/
def DigitsOK (cm : Charmap) : Bool := (List.range 10).all (fun i => cm.encRune (48 + i) == UInt8.ofNat (0xF0 + i))

theorem kindOfLine_ebcTag (k : Kind) (rest : Bytes) : kindOfLine (ebcTag k.tag ++ rest) = some k := by
  cases k <;> simp [kindOfLine, Kind.tag, Kind.all, ebcTag] <;> decide

theorem tag_enc (cm : Charmap) (hd : DigitsOK cm = true) (k : Kind) : k.tag.map (enc1 cm) = ebcTag k.tag := by
  simp only [DigitsOK, List.all_eq_true, List.mem_range, beq_iff_eq] at hd
  have h0 := hd 0 (by omega); have h1 := hd 1 (by omega); have h2 := hd 2 (by omega); have h3 := hd 3 (by omega)
  have h4 := hd 4 (by omega); have h5 := hd 5 (by omega); have h6 := hd 6 (by omega); have h7 := hd 7 (by omega)
  have h8 := hd 8 (by omega); have h9 := hd 9 (by omega)
  cases k <;> simp [Kind.tag, ebcTag, enc1] <;> simp_all <;> decide

/-- the EBCDIC body of a record whose ASCII rendering is safe text -/
theorem bodyLn_ebcdic (m : Model) (e : Enc) (he : e.ebcdic = true) (k : Kind) (hk : k ≠ .ivData) (v : Vals)
    (hs : (lineOf m k (some v)).all (safeB m.cm) = true) :
    bodyLn m e k v = (lineOf m k (some v)).map (enc1 m.cm) := by
  have ha := safe_isAscii m.cm _ hs
  have hb : bodyOf m true k (some v) = m.cm.encode (lineOf m k (some v)) := by
    unfold bodyOf
    cases k <;> simp_all
  simp only [bodyLn, he, hb, encode_ascii _ _ ha, Option.getD_some]
  rfl


theorem map_take {α β : Type} (f : α → β) (l : List α) (n : Nat) : (l.map f).take n = (l.take n).map f := by
  simp [List.map_take]

theorem all_take {α : Type} (p : α → Bool) (l : List α) (n : Nat) (h : l.all p = true) : (l.take n).all p = true := by
  simp only [List.all_eq_true] at h ⊢
  intro x hx
  exact h x (List.mem_of_mem_take hx)

/-- **C01's per-record premise under EBCDIC** (fixed-width kinds): the transliterated line of a canonical record
whose rendering is safe text is read back by the reader as that record -/
theorem recOK_ebcdic (m : Model) (e : Enc) (he : e.ebcdic = true) (hd : DigitsOK m.cm = true) (k : Kind)
    (hk : FixedKind m k = true) (v : Vals) (hc : RecCanon m k v)
    (hs : (lineOf m k (some v)).all (safeB m.cm) = true) : RecOK m e (bodyLn m e) k v := by
  have hko := hk
  simp only [FixedKind, Bool.and_eq_true, decide_eq_true_eq, bne_iff_ne, ne_eq] at hk
  obtain ⟨⟨⟨⟨⟨hl, htf⟩, h80⟩, hk1⟩, hk2⟩, hk3⟩ := hk
  have hbody := bodyLn_ebcdic m e he k hk1 v hs
  have hA := recOK_ascii m ⟨e.lp, false⟩ rfl k hko v hc
  obtain ⟨hkindA, hminA, hparseA⟩ := hA
  obtain ⟨rest, hr⟩ := render_typeFirst m.b64 (m.layout k).write v htf
  have hkind : kindOfLine (bodyLn m e k v) = some k := by
    rw [hbody]
    simp only [lineOf, hr, hc.typeSet, List.map_append, tag_enc m.cm hd k]
    exact kindOfLine_ebcTag k _
  have hlen := line_length_ge m k hl v hc
  refine ⟨hkind, ?_, ?_⟩
  · have : minLen m e (bodyLn m e k v) = 80 := by
      unfold minLen; rw [hkind]; cases k <;> simp_all
    show minLen m e (bodyLn m e k v) ≤ (bodyLn m e k v).length
    rw [this, hbody, List.length_map]; omega
  · have hpv := parse_canon m k hl v hc
    show recParse m e k (bodyLn m e k v) (tmpl m k) = .ok v
    have hdec := decode_enc m.cm _ hs
    have hibm := ibm1047_enc m.cm (m.frb && true) _ hs
    rw [hbody]
    cases k <;> simp only [recParse, he, if_true, hibm, hdec] <;> first | exact hpv | (exfalso; simp at hk1)

/-- records 27 / 34 under EBCDIC -/
theorem recOK_ebcdic_key (m : Model) (e : Enc) (he : e.ebcdic = true) (hd : DigitsOK m.cm = true) (k : Kind)
    (hk : KeyKind m k = true) (v : Vals) (hc : RecCanon m k v)
    (hs : (lineOf m k (some v)).all (safeB m.cm) = true) : RecOK m e (bodyLn m e) k v := by
  have hko := hk
  simp only [KeyKind, Bool.and_eq_true, beq_iff_eq, Bool.or_eq_true, Bool.not_eq_true'] at hk
  obtain ⟨⟨⟨⟨⟨⟨⟨hl, htf⟩, hkk⟩, hE⟩, hsp⟩, hvl⟩, hnr⟩, hasg⟩ := hk
  have hk1 : k ≠ .ivData := by rcases hkk with h | h <;> subst h <;> simp
  have hbody := bodyLn_ebcdic m e he k hk1 v hs
  have hA := recOK_ascii_key m ⟨e.lp, false⟩ rfl k hko v hc
  obtain ⟨hkindA, hminA, hparseA⟩ := hA
  obtain ⟨rest, hr⟩ := render_typeFirst m.b64 (m.layout k).write v htf
  have hkind : kindOfLine (bodyLn m e k v) = some k := by
    rw [hbody]
    simp only [lineOf, hr, hc.typeSet, List.map_append, tag_enc m.cm hd k]
    exact kindOfLine_ebcTag k _
  refine ⟨hkind, ?_, ?_⟩
  · -- the minimum length computed from the decoded head is the one computed from the ASCII line
    show minLen m e (bodyLn m e k v) ≤ (bodyLn m e k v).length
    have hminA' : minLen m ⟨e.lp, false⟩ (lineOf m k (some v)) ≤ (lineOf m k (some v)).length := hminA
    have heq : minLen m e (bodyLn m e k v) = minLen m ⟨e.lp, false⟩ (lineOf m k (some v)) := by
      unfold minLen
      rw [hkind, hkindA, hbody]
      have hhead : m.cm.decode (((lineOf m k (some v)).map (enc1 m.cm)).take 22) = (lineOf m k (some v)).take 22 := by
        rw [map_take]; exact decode_enc m.cm _ (all_take _ _ 22 hs)
      rcases hkk with h | h <;> subst h <;> simp only [he, if_true, Bool.false_eq_true, if_false, id, List.length_map, hhead]
    rw [heq, hbody, List.length_map]; exact hminA'
  · have hpv := parse_canon m k hl v hc
    show recParse m e k (bodyLn m e k v) (tmpl m k) = .ok v
    have hdec := decode_enc m.cm _ hs
    rw [hbody]
    rcases hkk with h | h <;> subst h <;> simp only [recParse, he, if_true, hdec] <;> exact hpv


/-! ### record 52 under EBCDIC: transliterated text followed by the raw image bytes, decoded section by section -/

theorem spans_append (a b : List WField) (o : SymOff) : spans (a ++ b) o = spans a o ++ spans b (endOff a o) := by
  induction a generalizing o with
  | nil => simp [spans, endOff]
  | cons f r ih => simp [spans, endOff, ih]

theorem render_noimg (b64 : Bytes → Option Bytes) (ws : List WField) (v : Vals) (incl : Bool)
    (h : ws.all (fun f => !f.imageOnly) = true) : render b64 ws incl v = render b64 ws true v := by
  induction ws with
  | nil => rfl
  | cons f r ih =>
    simp only [List.all_cons, Bool.and_eq_true, Bool.not_eq_true'] at h
    simp only [render, h.1, Bool.false_and, Bool.false_eq_true, if_false]
    rw [ih (by simpa using h.2)]

theorem all_append_left {α : Type} (p : α → Bool) (a b : List α) (h : (a ++ b).all p = true) : a.all p = true := by
  simp only [List.all_append, Bool.and_eq_true] at h; exact h.1

theorem all_append_right {α : Type} (p : α → Bool) (a b : List α) (h : (a ++ b).all p = true) : b.all p = true := by
  simp only [List.all_append, Bool.and_eq_true] at h; exact h.2

theorem span_mem_field : ∀ (ws : List WField) (o0 o : SymOff) (f : WField), (o, f) ∈ spans ws o0 → f ∈ ws
  | [], _, _, _, h => by simp [spans] at h
  | g :: r, o0, o, f, h => by
    simp only [spans, List.mem_cons, Prod.mk.injEq] at h
    rcases h with ⟨_, hf⟩ | h
    · simp [hf]
    · exact List.mem_cons_of_mem _ (span_mem_field r _ o f h)

/-- the slices of the EBCDIC carrier of a record whose last written field is the raw image -/
theorem iv_slice (b64 : Bytes → Option Bytes) (cm : Charmap) (init : List WField) (last : WField) (v : Vals) (ht : TypeSet v)
    (hwf : AllWf (init ++ [last]) = true) (hsym : ∀ g ∈ init ++ [last], LenIsSym b64 g v)
    (hni : init.all (fun f => !f.imageOnly) = true) (hli : last.imageOnly = true)
    (hsafe : (render b64 init true v).all (safeB cm) = true)
    (o : SymOff) (f : WField) (pre post : Bytes) (hmem : (o, f) ∈ spans (init ++ [last]) ⟨0, []⟩)
    (_h1 : render b64 (init ++ [last]) true v = pre ++ renderField b64 f v ++ post) (hpre : pre.length = o.val v) :
    ∃ x, slice? ((render b64 init true v).map (enc1 cm) ++ renderField b64 last v) (pre.length : Int)
        ((pre.length + (renderField b64 f v).length : Nat) : Int) = some x ∧
      ∀ dc, dc = !f.imageOnly → (if dc = true then cm.decode x else x) = renderField b64 f v := by
  have hwfI : AllWf init = true := by
    simp only [AllWf, List.all_append, Bool.and_eq_true] at hwf; exact hwf.1
  have hsymI : ∀ g ∈ init, LenIsSym b64 g v := fun g hg => hsym g (by simp [hg])
  have hE0 : (⟨0, []⟩ : SymOff).val v = 0 := by simp [SymOff.val, sumW]
  rw [spans_append] at hmem
  rcases List.mem_append.1 hmem with hm | hm
  · -- a text field
    obtain ⟨pre', post', e1, e2, _⟩ := span_split b64 v ht init ⟨0, []⟩ o f hwfI hsymI hm
    rw [hE0, Nat.zero_add] at e2
    have hfi : f.imageOnly = false := by
      have hf := span_mem_field init _ o f hm
      simp only [List.all_eq_true, Bool.not_eq_true'] at hni
      exact hni f hf
    have hplen : pre.length = (pre'.map (enc1 cm)).length := by rw [List.length_map, hpre, e2]
    have hflen : (renderField b64 f v).length = ((renderField b64 f v).map (enc1 cm)).length := by rw [List.length_map]
    refine ⟨(renderField b64 f v).map (enc1 cm), ?_, ?_⟩
    · rw [e1]
      simp only [List.map_append, List.append_assoc]
      rw [hplen, hflen]
      have := slice?_mid (pre'.map (enc1 cm)) ((renderField b64 f v).map (enc1 cm)) (post'.map (enc1 cm) ++ renderField b64 last v)
      simpa [List.append_assoc] using this
    · intro dc hdc
      rw [hdc, hfi]
      simp only [Bool.not_false, if_true]
      rw [e1] at hsafe
      exact decode_enc cm _ (all_append_right _ _ _ (all_append_left _ _ _ hsafe))
  · -- the image
    simp only [spans, List.mem_singleton, Prod.mk.injEq, List.mem_cons, List.not_mem_nil, or_false] at hm
    obtain ⟨ho, hf⟩ := hm
    subst hf
    have hE := endOff_val b64 v ht init ⟨0, []⟩ hwfI hsymI
    rw [hE0, Nat.zero_add] at hE
    have hplen : pre.length = ((render b64 init true v).map (enc1 cm)).length := by
      rw [List.length_map, hpre, ho, hE]
    refine ⟨renderField b64 f v, ?_, ?_⟩
    · rw [hplen]
      have := slice?_mid ((render b64 init true v).map (enc1 cm)) (renderField b64 f v) []
      simpa using this
    · intro dc hdc
      rw [hdc, hli]
      simp


theorem ivMinLen_step_gen (dec : Bytes → Bytes) (l : Bytes) (stop w : Nat) (ws : List Nat) (pre post : Bytes) (n : Int)
    (h1 : l = pre ++ post) (h2 : pre.length = stop) (h3 : w ≤ post.length) (h4 : parseNum (dec (post.take w)) = n) (hn : 0 ≤ n) :
    ivMinLen dec l stop (w :: ws) = ivMinLen dec l (stop + w + n.toNat) ws := by
  have hd : l.drop stop = post := by rw [h1, ← h2]; simp
  have hl : ¬ l.length < stop + w := by rw [h1, List.length_append]; omega
  rw [ivMinLen]
  simp only [hl, if_false, hd, h4]
  have : ¬ n < 0 := by omega
  simp only [this, if_false]

/-- a length field that lies inside the text part reads the same through the EBCDIC carrier -/
theorem carrier_reads (cm : Charmap) (T img p q : Bytes) (w : Nat) (hline : T ++ img = p ++ q) (hin : p.length + w ≤ T.length)
    (hsafe : T.all (safeB cm) = true) :
    ∃ qE, T.map (enc1 cm) ++ img = p.map (enc1 cm) ++ qE ∧ w ≤ qE.length ∧ cm.decode (qE.take w) = q.take w := by
  rcases List.append_eq_append_iff.1 hline with ⟨a', hp, hi⟩ | ⟨c', hT, hq⟩
  · -- p = T ++ a' : then a' = [] by length
    have : a'.length = 0 := by
      have := congrArg List.length hp; simp only [List.length_append] at this; omega
    have ha : a' = [] := List.eq_nil_of_length_eq_zero this
    subst ha
    simp only [List.append_nil] at hp
    simp only [List.nil_append] at hi
    subst hp
    have hw : w = 0 := by omega
    subst hw
    exact ⟨img, by simp, by omega, by simp [Charmap.decode]⟩
  · subst hT
    subst hq
    simp only [List.length_append] at hin
    refine ⟨c'.map (enc1 cm) ++ img, by simp [List.append_assoc], by simp only [List.length_append, List.length_map]; omega, ?_⟩
    have e1 : (c'.map (enc1 cm) ++ img).take w = (c'.take w).map (enc1 cm) := by
      rw [List.take_append_of_le_length (by rw [List.length_map]; omega), map_take]
    have e2 : (c' ++ img).take w = c'.take w := by
      rw [List.take_append_of_le_length (by omega)]
    rw [e1, e2]
    exact decode_enc cm _ (all_take _ _ w (all_append_right _ _ _ hsafe))


/-- the decode flags of `Parse()` agree with the carrier: every member decoded through the reader's decoder except the image -/
def flagsB (ws : List WField) (ps : List PStmt) : Bool :=
  ps.all (fun st => match st with
    | .assign dst _ _ _ dc => ws.all (fun f => f.src != dst || dc == !f.imageOnly)
    | _ => true)

theorem flagsB_sound (ws : List WField) (ps : List PStmt) (h : flagsB ws ps = true) :
    FlagsOK (fun f dc => dc = !f.imageOnly) ws ps := by
  intro dst lo hi k dc hm f hf hs
  simp only [flagsB, List.all_eq_true] at h
  have := h _ hm
  simp only [List.all_eq_true] at this
  have := this f hf
  simp only [Bool.or_eq_true, bne_iff_ne, ne_eq, beq_iff_eq] at this
  rcases this with h1 | h1
  · exact absurd hs h1
  · exact h1

/-- record 52 for the EBCDIC carrier: the ASCII facts, the image is the last written field and the only image-only
one, `Parse()` counts bytes only, and its decode flags fit -/
def IvKindE (m : Model) : Bool :=
  IvKind m .ivData &&
  (match (m.layout .ivData).write.reverse with
   | last :: initR => last.imageOnly && isVarConv last.conv && last.lenField == "LengthImageData" && initR.all (fun f => !f.imageOnly)
   | [] => false) &&
  (m.layout .ivData).parse.all (fun st => !usesRunes st) &&
  flagsB (m.layout .ivData).write (m.layout .ivData).parse

/-- the text part of record 52 (everything but the image bytes) is safe text -/
def IvSafe (m : Model) (v : Vals) : Prop :=
  (render m.b64 (m.layout .ivData).write false v).all (safeB m.cm) = true

theorem recOK_ebcdic_iv (m : Model) (e : Enc) (he : e.ebcdic = true) (hd : DigitsOK m.cm = true)
    (hk : IvKindE m = true) (v : Vals) (hc : RecCanon m .ivData v) (hs : IvSafe m v) :
    RecOK m e (bodyLn m e) .ivData v := by
  simp only [IvKindE, Bool.and_eq_true] at hk
  obtain ⟨⟨⟨hiv, hlast⟩, hnr⟩, hflags⟩ := hk
  have hivo := hiv
  simp only [IvKind, Bool.and_eq_true, beq_iff_eq, Bool.not_eq_true'] at hiv
  obtain ⟨⟨⟨⟨⟨⟨⟨⟨⟨⟨⟨⟨⟨⟨⟨hl, htf⟩, _⟩, hE⟩, hsp1⟩, hsp2⟩, hsp3⟩, hv1⟩, hv2⟩, hv3⟩, hn1⟩, hn2⟩, hn3⟩, ha1⟩, ha2⟩, ha3⟩ := hiv
  -- the write table is `init ++ [last]`
  cases hrev : (m.layout .ivData).write.reverse with
  | nil => simp [hrev] at hlast
  | cons last initR =>
    simp only [hrev, Bool.and_eq_true, beq_iff_eq] at hlast
    obtain ⟨⟨⟨hli, hlv⟩, hllf⟩, hni⟩ := hlast
    have hws : (m.layout .ivData).write = initR.reverse ++ [last] := by
      have := congrArg List.reverse hrev
      simpa using this
    have hniI : initR.reverse.all (fun f => !f.imageOnly) = true := by
      simp only [List.all_eq_true, List.mem_reverse] at hni ⊢; exact hni
    have ht := canon_typeSet m .ivData _ v hc
    have hlo := hl
    simp only [LayoutOK, Bool.and_eq_true] at hlo
    have hwf : AllWf (initR.reverse ++ [last]) = true := by rw [← hws]; exact hlo.1
    have hsym : ∀ g ∈ initR.reverse ++ [last], LenIsSym m.b64 g v := by
      rw [← hws]; exact lenIsSym_all m.b64 _ _ _ v hc.canon
    -- text and image
    have htext : render m.b64 (m.layout .ivData).write false v = render m.b64 initR.reverse true v := by
      rw [hws, render_append, render_noimg m.b64 _ v false hniI]
      simp [render, hli]
    have hfull : render m.b64 (m.layout .ivData).write true v = render m.b64 initR.reverse true v ++ renderField m.b64 last v := by
      rw [hws, render_append]; simp [render]
    have hsafe : (render m.b64 initR.reverse true v).all (safeB m.cm) = true := by
      have := hs; unfold IvSafe at this; rw [htext] at this; exact this
    have hbody : bodyLn m e .ivData v = (render m.b64 initR.reverse true v).map (enc1 m.cm) ++ renderField m.b64 last v := by
      have hfil : ((m.layout .ivData).write.filter (·.imageOnly)) = [last] := by
        rw [hws, List.filter_append]
        have : initR.reverse.filter (·.imageOnly) = [] := by
          simp only [List.filter_eq_nil_iff, List.mem_reverse]
          intro a ha
          simp only [List.all_eq_true, Bool.not_eq_true'] at hni
          simp [hni a ha]
        simp [this, hli]
      simp only [bodyLn, he, bodyOf, if_true, htext, encode_ascii _ _ (safe_isAscii m.cm _ hsafe), hfil,
        Option.map_some, Option.getD_some, List.flatMap_cons, List.flatMap_nil, List.append_nil]
      rfl
    -- ASCII facts
    obtain ⟨hkindA, hminA, hparseA⟩ := recOK_ascii_iv m ⟨e.lp, false⟩ rfl .ivData hivo v hc
    have hlen := line_length_eq m .ivData hl v hc
    rw [hE] at hlen
    simp only [SymOff.val, sumW, Nat.add_zero] at hlen
    have hRlen : (bodyLn m e .ivData v).length = (render m.b64 (m.layout .ivData).write true v).length := by
      rw [hbody, hfull]; simp
    -- kind
    have htfI : TypeFirst initR.reverse = true := by
      cases hI : initR.reverse with
      | nil =>
        rw [hws, hI] at htf
        simp only [List.nil_append, TypeFirst, Bool.and_eq_true, Bool.not_eq_true'] at htf
        rw [hli] at htf; exact absurd htf.2 (by simp)
      | cons f r =>
        rw [hws, hI] at htf
        simpa [TypeFirst] using htf
    obtain ⟨rest, hr⟩ := render_typeFirst m.b64 initR.reverse v htfI
    have hkind : kindOfLine (bodyLn m e .ivData v) = some .ivData := by
      rw [hbody, hr, hc.typeSet]
      simp only [List.map_append, tag_enc m.cm hd .ivData, List.append_assoc]
      exact kindOfLine_ebcTag .ivData _
    refine ⟨hkind, ?_, ?_⟩
    · -- length test
      show minLen m e (bodyLn m e .ivData v) ≤ (bodyLn m e .ivData v).length
      have hl1 := canon_varLenOK m .ivData v hc _ hv1
      have hl2 := canon_varLenOK m .ivData v hc _ hv2
      have hl3 := canon_varLenOK m .ivData v hc _ hv3
      have hw1 := widthOfLen_of_lenOK v _ hl1
      have hw2 := widthOfLen_of_lenOK v _ hl2
      have hw3 := widthOfLen_of_lenOK v _ hl3
      obtain ⟨p1, q1, a1, a2, a3, a4⟩ := lenField_reads m .ivData hl v hc _ 4 _ hn1 ha1 hsp1
      obtain ⟨p2, q2, b1, b2, b3, b4⟩ := lenField_reads m .ivData hl v hc _ 5 _ hn2 ha2 hsp2
      obtain ⟨p3, q3, c1, c2, c3, c4⟩ := lenField_reads m .ivData hl v hc _ 7 _ hn3 ha3 hsp3
      simp only [SymOff.val, sumW, Nat.add_zero] at a2 b2 c2
      -- the text part is 117 + key + signature bytes long
      have hTlen : (render m.b64 initR.reverse true v).length + (renderField m.b64 last v).length =
          117 + (widthOfLen v "LengthImageReferenceKey" + (widthOfLen v "LengthDigitalSignature" + widthOfLen v "LengthImageData")) := by
        have := hlen; simp only [lineOf, hfull, List.length_append] at this; exact this
      have hlastlen : (renderField m.b64 last v).length = widthOfLen v "LengthImageData" := by
        have hlw : WfW last = true := by
          simp only [AllWf, List.all_eq_true] at hwf; exact hwf last (by simp)
        rw [renderField_length m.b64 last v hlw ht]
        have := hsym last (by simp)
        unfold LenIsSym at this
        rw [this, hlv, if_pos rfl, hllf]
      have hline : render m.b64 initR.reverse true v ++ renderField m.b64 last v = lineOf m .ivData (some v) := by
        simp only [lineOf, hfull]
      obtain ⟨qE1, r1, r2, r3⟩ := carrier_reads m.cm _ _ p1 q1 4 (by rw [hline]; exact a1) (by omega) hsafe
      obtain ⟨qE2, s1, s2, s3⟩ := carrier_reads m.cm _ _ p2 q2 5 (by rw [hline]; exact b1) (by omega) hsafe
      obtain ⟨qE3, t1, t2, t3⟩ := carrier_reads m.cm _ _ p3 q3 7 (by rw [hline]; exact c1) (by omega) hsafe
      have hm : minLen m e (bodyLn m e .ivData v) = (bodyLn m e .ivData v).length := by
        unfold minLen
        rw [hkind]
        have hnl : ¬ (bodyLn m e .ivData v).length < 80 := by rw [hRlen, ← lineOf, hlen]; omega
        simp only [hnl, if_false, he, if_true]
        rw [hbody]
        rw [ivMinLen_step_gen _ _ 101 4 _ (p1.map (enc1 m.cm)) qE1 _ r1 (by rw [List.length_map]; exact a2) r2 (by rw [r3]; exact a4) hl1.1]
        rw [ivMinLen_step_gen _ _ _ 5 _ (p2.map (enc1 m.cm)) qE2 _ s1 (by rw [List.length_map, b2]; omega) s2 (by rw [s3]; exact b4) hl2.1]
        rw [ivMinLen_step_gen _ _ _ 7 _ (p3.map (enc1 m.cm)) qE3 _ t1 (by rw [List.length_map, c2]; omega) t2 (by rw [t3]; exact c4) hl3.1]
        simp only [ivMinLen, List.length_append, List.length_map]
        omega
      rw [hm]; exact Nat.le_refl _
    · -- parse
      show recParse m e .ivData (bodyLn m e .ivData v) (tmpl m .ivData) = .ok v
      simp only [recParse, he, if_true]
      have hnoRunes : ∀ st ∈ (m.layout .ivData).parse, usesRunes st = true →
          runeCount (bodyLn m e .ivData v) = (bodyLn m e .ivData v).length := by
        intro st hst hu
        simp only [List.all_eq_true, Bool.not_eq_true'] at hnr
        rw [hnr st hst] at hu; cases hu
      have hslice : ∀ (o : SymOff) (f : WField) (pre post : Bytes), (o, f) ∈ spans (m.layout .ivData).write ⟨0, []⟩ →
          render m.b64 (m.layout .ivData).write true v = pre ++ renderField m.b64 f v ++ post → pre.length = o.val v →
          ∃ x, slice? (bodyLn m e .ivData v) (pre.length : Int) ((pre.length + (renderField m.b64 f v).length : Nat) : Int) = some x ∧
            ∀ dc, (fun (f : WField) (dc : Bool) => dc = !f.imageOnly) f dc → (if dc = true then m.cm.decode x else x) = renderField m.b64 f v := by
        intro o f pre post hmem h1 hpre
        rw [hbody]
        rw [hws] at hmem h1
        exact iv_slice m.b64 m.cm initR.reverse last v ht hwf hsym hniI hli hsafe o f pre post hmem h1 hpre
      have hp := parse_render_gen m.b64 m.now (m.layout .ivData).setType (m.layout .ivData).write v
        (rawDsts (m.layout .ivData).parse) (assignDsts (m.layout .ivData).parse) hlo.1 ht hc.canon
        m.cm.decode (bodyLn m e .ivData v) (fun f dc => dc = !f.imageOnly) hRlen hslice
        (m.layout .ivData).parse {} (tmpl m .ivData) (fun d hd => hd) hnoRunes (flagsB_sound _ _ hflags)
        (by intro d hd; cases hd) hlo.2
      have he0 : envOf v ({} : PSt).binds = [] := rfl
      rw [he0, hc.shaped] at hp
      unfold parseValidate RecLayout.parseRec
      dsimp only
      rw [hp]
      simp only [hc.valid]

end Icl.C01
