/-
C01's per-record premise under EBCDIC, for every record kind whose line the reader decodes as a whole
(all kinds but 52): when every byte of the ASCII rendering is a character the code page carries and gives
back (`safeB`, decidable per byte on the regenerated CP037 table), the EBCDIC body is the byte-for-byte
transliteration, the reader's decoder inverts it, and the ASCII result (`RecCanon.lean`) applies.
-/
import IclModel.Lemmas.RecCanon
import IclModel.Lemmas.Ebcdic
import IclModel.Lemmas.WriterLink
namespace Icl.C01
open Icl Icl.C04

/-- a byte of an ASCII rendering that survives the code page: ASCII, decoded back from its EBCDIC byte to itself,
and not one of the three EBCDIC bytes the FRB compatibility mode rewrites in addendum A lines -/
def safeB (cm : Charmap) (b : UInt8) : Bool :=
  b < 0x80 && utf8Encode (cm.dec.getD (cm.encRune b.toNat).toNat 0xFFFD) == [b] &&
    cm.encRune b.toNat != 0xAD && cm.encRune b.toNat != 0xBD && cm.encRune b.toNat != 0x5F

def enc1 (cm : Charmap) (b : UInt8) : UInt8 := cm.encRune b.toNat

theorem safe_isAscii (cm : Charmap) (s : Bytes) (h : s.all (safeB cm) = true) : isAscii s = true := by
  simp only [isAscii, List.all_eq_true] at h ⊢
  intro b hb
  have := h b hb
  simp only [safeB, Bool.and_eq_true, decide_eq_true_eq] at this
  simpa using this.1.1.1.1

theorem decode_enc (cm : Charmap) (s : Bytes) (h : s.all (safeB cm) = true) : cm.decode (s.map (enc1 cm)) = s := by
  induction s with
  | nil => rfl
  | cons b r ih =>
    simp only [List.all_cons, Bool.and_eq_true] at h
    have hb := h.1
    simp only [safeB, Bool.and_eq_true, beq_iff_eq] at hb
    have ih' := ih h.2
    simp only [Charmap.decode, List.map_cons, List.flatMap_cons] at ih' ⊢
    rw [ih']
    simp only [enc1]
    rw [hb.1.1.1.2]
    rfl

theorem ibm1047_enc (cm : Charmap) (frb : Bool) (s : Bytes) (h : s.all (safeB cm) = true) :
    ibm1047 frb (s.map (enc1 cm)) = s.map (enc1 cm) := by
  unfold ibm1047
  cases frb with
  | false => rfl
  | true =>
    simp only [if_true]
    induction s with
    | nil => rfl
    | cons b r ih =>
      simp only [List.all_cons, Bool.and_eq_true] at h
      have hb := h.1
      simp only [safeB, Bool.and_eq_true, bne_iff_ne, ne_eq] at hb
      simp only [List.map_cons, ih h.2, enc1]
      have h1 : (cm.encRune b.toNat == 0xAD) = false := by simpa using hb.1.1.2
      have h2 : (cm.encRune b.toNat == 0xBD) = false := by simpa using hb.1.2
      have h3 : (cm.encRune b.toNat == 0x5F) = false := by simpa using hb.2
      simp [h1, h2, h3]

/-- the code page writes the ten digits as 0xF0..0xF9 (so that type codes keep their EBCDIC spelling) -/
def DigitsOK (cm : Charmap) : Bool := (List.range 10).all (fun i => cm.encRune (48 + i) == UInt8.ofNat (0xF0 + i))

theorem kindOfLine_ebcTag (k : Kind) (rest : Bytes) : kindOfLine (ebcTag k.tag ++ rest) = some k := by
  cases k <;> simp [kindOfLine, Kind.tag, Kind.all, ebcTag] <;> decide

theorem tag_enc (cm : Charmap) (hd : DigitsOK cm = true) (k : Kind) : k.tag.map (enc1 cm) = ebcTag k.tag := by
  simp only [DigitsOK, List.all_eq_true, List.mem_range, beq_iff_eq] at hd
  have h0 := hd 0 (by omega); have h1 := hd 1 (by omega); have h2 := hd 2 (by omega); have h3 := hd 3 (by omega)
  have h4 := hd 4 (by omega); have h5 := hd 5 (by omega); have h6 := hd 6 (by omega); have h7 := hd 7 (by omega)
  have h8 := hd 8 (by omega); have h9 := hd 9 (by omega)
  cases k <;> simp [Kind.tag, ebcTag, enc1] <;> simp_all <;> decide

/-- the EBCDIC body of a record whose ASCII rendering is safe text -/
theorem bodyLn_ebcdic (m : Model) (e : Enc) (he : e.ebcdic = true) (k : Kind) (hk : k ≠ .ivData) (v : Vals)
    (hs : (lineOf m k (some v)).all (safeB m.cm) = true) :
    bodyLn m e k v = (lineOf m k (some v)).map (enc1 m.cm) := by
  have ha := safe_isAscii m.cm _ hs
  have hb : bodyOf m true k (some v) = m.cm.encode (lineOf m k (some v)) := by
    unfold bodyOf
    cases k <;> simp_all
  simp only [bodyLn, he, hb, encode_ascii _ _ ha, Option.getD_some]
  rfl


theorem map_take {α β : Type} (f : α → β) (l : List α) (n : Nat) : (l.map f).take n = (l.take n).map f := by
  simp [List.map_take]

theorem all_take {α : Type} (p : α → Bool) (l : List α) (n : Nat) (h : l.all p = true) : (l.take n).all p = true := by
  simp only [List.all_eq_true] at h ⊢
  intro x hx
  exact h x (List.mem_of_mem_take hx)

/-- **C01's per-record premise under EBCDIC** (fixed-width kinds): the transliterated line of a canonical record
whose rendering is safe text is read back by the reader as that record -/
theorem recOK_ebcdic (m : Model) (e : Enc) (he : e.ebcdic = true) (hd : DigitsOK m.cm = true) (k : Kind)
    (hk : FixedKind m k = true) (v : Vals) (hc : RecCanon m k v)
    (hs : (lineOf m k (some v)).all (safeB m.cm) = true) : RecOK m e (bodyLn m e) k v := by
  have hko := hk
  simp only [FixedKind, Bool.and_eq_true, decide_eq_true_eq, bne_iff_ne, ne_eq] at hk
  obtain ⟨⟨⟨⟨⟨hl, htf⟩, h80⟩, hk1⟩, hk2⟩, hk3⟩ := hk
  have hbody := bodyLn_ebcdic m e he k hk1 v hs
  have hA := recOK_ascii m ⟨e.lp, false⟩ rfl k hko v hc
  obtain ⟨hkindA, hminA, hparseA⟩ := hA
  obtain ⟨rest, hr⟩ := render_typeFirst m.b64 (m.layout k).write v htf
  have hkind : kindOfLine (bodyLn m e k v) = some k := by
    rw [hbody]
    simp only [lineOf, hr, hc.typeSet, List.map_append, tag_enc m.cm hd k]
    exact kindOfLine_ebcTag k _
  have hlen := line_length_ge m k hl v hc
  refine ⟨hkind, ?_, ?_⟩
  · have : minLen m e (bodyLn m e k v) = 80 := by
      unfold minLen; rw [hkind]; cases k <;> simp_all
    show minLen m e (bodyLn m e k v) ≤ (bodyLn m e k v).length
    rw [this, hbody, List.length_map]; omega
  · have hpv := parse_canon m k hl v hc
    show recParse m e k (bodyLn m e k v) (tmpl m k) = .ok v
    have hdec := decode_enc m.cm _ hs
    have hibm := ibm1047_enc m.cm (m.frb && true) _ hs
    rw [hbody]
    cases k <;> simp only [recParse, he, if_true, hibm, hdec] <;> first | exact hpv | (exfalso; simp at hk1)

/-- records 27 / 34 under EBCDIC -/
theorem recOK_ebcdic_key (m : Model) (e : Enc) (he : e.ebcdic = true) (hd : DigitsOK m.cm = true) (k : Kind)
    (hk : KeyKind m k = true) (v : Vals) (hc : RecCanon m k v)
    (hs : (lineOf m k (some v)).all (safeB m.cm) = true) : RecOK m e (bodyLn m e) k v := by
  have hko := hk
  simp only [KeyKind, Bool.and_eq_true, beq_iff_eq, Bool.or_eq_true, Bool.not_eq_true'] at hk
  obtain ⟨⟨⟨⟨⟨⟨⟨hl, htf⟩, hkk⟩, hE⟩, hsp⟩, hvl⟩, hnr⟩, hasg⟩ := hk
  have hk1 : k ≠ .ivData := by rcases hkk with h | h <;> subst h <;> simp
  have hbody := bodyLn_ebcdic m e he k hk1 v hs
  have hA := recOK_ascii_key m ⟨e.lp, false⟩ rfl k hko v hc
  obtain ⟨hkindA, hminA, hparseA⟩ := hA
  obtain ⟨rest, hr⟩ := render_typeFirst m.b64 (m.layout k).write v htf
  have hkind : kindOfLine (bodyLn m e k v) = some k := by
    rw [hbody]
    simp only [lineOf, hr, hc.typeSet, List.map_append, tag_enc m.cm hd k]
    exact kindOfLine_ebcTag k _
  refine ⟨hkind, ?_, ?_⟩
  · -- the minimum length computed from the decoded head is the one computed from the ASCII line
    show minLen m e (bodyLn m e k v) ≤ (bodyLn m e k v).length
    have hminA' : minLen m ⟨e.lp, false⟩ (lineOf m k (some v)) ≤ (lineOf m k (some v)).length := hminA
    have heq : minLen m e (bodyLn m e k v) = minLen m ⟨e.lp, false⟩ (lineOf m k (some v)) := by
      unfold minLen
      rw [hkind, hkindA, hbody]
      have hhead : m.cm.decode (((lineOf m k (some v)).map (enc1 m.cm)).take 22) = (lineOf m k (some v)).take 22 := by
        rw [map_take]; exact decode_enc m.cm _ (all_take _ _ 22 hs)
      rcases hkk with h | h <;> subst h <;> simp only [he, if_true, Bool.false_eq_true, if_false, id, List.length_map, hhead]
    rw [heq, hbody, List.length_map]; exact hminA'
  · have hpv := parse_canon m k hl v hc
    show recParse m e k (bodyLn m e k v) (tmpl m k) = .ok v
    have hdec := decode_enc m.cm _ hs
    rw [hbody]
    rcases hkk with h | h <;> subst h <;> simp only [recParse, he, if_true, hdec] <;> exact hpv

end Icl.C01
