/-
The record sequence used by the reassembly theorem (`fileLines`) is the writer walk (`File.flatten`)
of a well-formed file, and the model writer's length-prefixed output is `joinLP` of those lines.
-/
import IclModel.Lemmas.Builder
import IclModel.Lemmas.Framing
namespace Icl.C01
open Icl Icl.C04

/-- forget the line of a record -/
def unrec (r : Rec) : Kind × Option Vals := (r.1, some r.2.1)

section
variable (ln : Kind → Vals → Bytes)

theorem optRec_eq (k : Kind) (l : List Vals) (i : Nat) :
    optRec k l i = ((optVals l i).map (mkRec ln k)).map unrec := by
  unfold optRec optVals
  cases l[i]? <;> simp [mkRec, unrec]

theorem views_flatten (it : Item Vals) (n : Nat) :
    (List.range n).flatMap (fun i => optRec .ivDetail it.ivDetail i ++ optRec .ivData it.ivData i ++ optRec .ivAnalysis it.ivAnalysis i)
      = ((List.range n).flatMap (viewRecs ln it)).map unrec := by
  rw [List.map_flatMap]
  congr 1
  funext i
  simp only [viewRecs, List.map_append, ← optRec_eq]

theorem check_flatten (it : Item Vals) : Item.flatten true it = (checkRecs ln it).map unrec := by
  simp only [Item.flatten, checkRecs, if_true, List.append_nil, views_flatten ln it, List.map_append, List.map_map]
  simp [mkRec, unrec, Function.comp_def]

theorem return_flatten (it : Item Vals) : Item.flatten false it = (returnRecs ln it).map unrec := by
  simp only [Item.flatten, returnRecs, Bool.false_eq_true, if_false, views_flatten ln it, List.map_append, List.map_map]
  simp [mkRec, unrec, Function.comp_def]

theorem checks_flatten (its : List (Item Vals)) :
    its.flatMap (Item.flatten true) = (its.flatMap (checkRecs ln)).map unrec := by
  induction its with
  | nil => rfl
  | cons it r ih => simp only [List.flatMap_cons, List.map_append, ih, check_flatten ln it]

theorem returns_flatten (its : List (Item Vals)) :
    its.flatMap (Item.flatten false) = (its.flatMap (returnRecs ln)).map unrec := by
  induction its with
  | nil => rfl
  | cons it r ih => simp only [List.flatMap_cons, List.map_append, ih, return_flatten ln it]

theorem bundle_flatten (b : Bundle Vals) (h c : Vals) (hh : b.header = some h) (hc : b.control = some c) :
    Bundle.flatten b = (bundleRecs ln b).map unrec := by
  simp only [Bundle.flatten, bundleRecs, hh, hc, Option.toList_some, List.map_append, List.map_cons, List.map_nil,
    checks_flatten ln, returns_flatten ln]
  simp [mkRec, unrec]

theorem bundles_flatten (bs : List (Bundle Vals)) (hb : ∀ b ∈ bs, ∃ bh bc, b.header = some bh ∧ b.control = some bc) :
    bs.flatMap Bundle.flatten = (bs.flatMap (bundleRecs ln)).map unrec := by
  induction bs with
  | nil => rfl
  | cons b r ih =>
    obtain ⟨bh, bc, h1, h2⟩ := hb b (by simp)
    simp only [List.flatMap_cons, List.map_append, ih (fun x hx => hb x (by simp [hx])), bundle_flatten ln b bh bc h1 h2]

theorem rns_flatten (l : List (Option Vals)) (hr : ∀ r ∈ l, r.isSome = true) :
    l.map (fun r => (Kind.rns, r)) = ((l.filterMap id).map (mkRec ln .rns)).map unrec := by
  induction l with
  | nil => rfl
  | cons r l ih =>
    cases r with
    | none => simp at hr
    | some v => simp [ih (fun x hx => hr x (by simp [hx])), mkRec, unrec]

theorem cashLetter_flatten (cl : CashLetter Vals) (h c : Vals) (hh : cl.header = some h) (hc : cl.control = some c)
    (hr : ∀ r ∈ cl.rns, r.isSome = true)
    (hb : ∀ b ∈ cl.bundles, ∃ bh bc, b.header = some bh ∧ b.control = some bc) :
    CashLetter.flatten cl = (clRecs ln cl).map unrec := by
  simp only [CashLetter.flatten, clRecs, hh, hc, Option.toList_some, List.map_append, List.map_cons, List.map_nil,
    bundles_flatten ln cl.bundles hb, rns_flatten ln cl.rns hr]
  simp [mkRec, unrec, Function.comp_def]

theorem cashLetters_flatten (cls : List (CashLetter Vals))
    (hcl : ∀ cl ∈ cls, (∃ h c, cl.header = some h ∧ cl.control = some c) ∧ (∀ r ∈ cl.rns, r.isSome = true) ∧
      (∀ b ∈ cl.bundles, ∃ bh bc, b.header = some bh ∧ b.control = some bc)) :
    cls.flatMap CashLetter.flatten = (cls.flatMap (clRecs ln)).map unrec := by
  induction cls with
  | nil => rfl
  | cons cl r ih =>
    obtain ⟨⟨h, c, h1, h2⟩, h3, h4⟩ := hcl cl (by simp)
    simp only [List.flatMap_cons, List.map_append, ih (fun x hx => hcl x (by simp [hx])), cashLetter_flatten ln cl h c h1 h2 h3 h4]

end

end Icl.C01

namespace Icl.C01
open Icl Icl.C04

/-- the fold step of `writeFile` -/
def wstep (m : Model) (e : Enc) (acc : Option Bytes) (kr : Kind × Option Vals) : Option Bytes :=
  match acc, writeLine m e kr.1 kr.2 with
  | some a, some l => some (a ++ l)
  | _, _ => none

theorem foldl_wstep_none (m : Model) (e : Enc) (l : List (Kind × Option Vals)) : l.foldl (wstep m e) none = none := by
  induction l with
  | nil => rfl
  | cons kr r ih => simpa [wstep] using ih

/-- a successful writer fold is the concatenation of the framed records, all of which were writable -/
theorem foldl_wstep_some (m : Model) (e : Enc) (l : List (Kind × Option Vals)) (acc out : Bytes)
    (h : l.foldl (wstep m e) (some acc) = some out) :
    out = acc ++ l.flatMap (fun kr => (writeLine m e kr.1 kr.2).getD []) ∧ ∀ kr ∈ l, (writeLine m e kr.1 kr.2).isSome = true := by
  induction l generalizing acc with
  | nil => simp at h; simp [h]
  | cons kr r ih =>
    simp only [List.foldl_cons] at h
    cases hw : writeLine m e kr.1 kr.2 with
    | none =>
      simp only [wstep, hw] at h
      have := foldl_wstep_none m e r
      rw [show (none : Option Bytes) = none from rfl] at h
      simp [this] at h
    | some x =>
      simp only [wstep, hw] at h
      obtain ⟨h1, h2⟩ := ih (acc ++ x) h
      refine ⟨?_, ?_⟩
      · rw [h1]; simp [hw, List.append_assoc]
      · intro kr' hkr'
        simp only [List.mem_cons] at hkr'
        rcases hkr' with hkr' | hkr'
        · subst hkr'; simp [hw]
        · exact h2 kr' hkr'

/-- the bytes between the framing for a record (what the reader will see as its line) -/
def bodyLn (m : Model) (e : Enc) (k : Kind) (v : Vals) : Bytes := (bodyOf m e.ebcdic k (some v)).getD []

/-- length-prefixed framing of one record whose body has the length the prefix announces -/
theorem writeLine_lp (m : Model) (e : Enc) (hlp : e.lp = true) (k : Kind) (v : Vals) (x : Bytes)
    (hw : writeLine m e k (some v) = some x)
    (hlen : (bodyLn m e k v).length = (lineOf m k (some v)).length) :
    x = be32 (bodyLn m e k v).length ++ bodyLn m e k v ∧ (bodyLn m e k v).length < 4294967296 := by
  unfold writeLine at hw
  simp only [hlp, if_true] at hw
  cases hv : validSizeInt ((lineOf m k (some v)).length : Int) with
  | false => simp [hv] at hw
  | true =>
    simp only [hv, if_true] at hw
    cases hb : bodyOf m e.ebcdic k (some v) with
    | none => simp [hb] at hw
    | some b =>
      simp only [hb, Option.some.injEq] at hw
      have hbl : bodyLn m e k v = b := by simp [bodyLn, hb]
      rw [hbl] at hlen ⊢
      refine ⟨?_, ?_⟩
      · rw [← hw, hlen]; simp
      · rw [hlen]
        simp only [validSizeInt, Bool.and_eq_true, decide_eq_true_eq] at hv
        have h2 : ((lineOf m k (some v)).length : Int) < ((100000000 : Nat) : Int) := hv.2
        have : (lineOf m k (some v)).length < 100000000 := by exact_mod_cast h2
        omega

end Icl.C01

namespace Icl.C01
open Icl Icl.C04

/-- the line of a record built by `mkRec` is `ln` of its kind and value -/
def LineOK (ln : Kind → Vals → Bytes) (r : Rec) : Prop := r.2.2 = ln r.1 r.2.1

section
variable (ln : Kind → Vals → Bytes)

theorem lineOK_mk (k : Kind) (v : Vals) : LineOK ln (mkRec ln k v) := rfl

theorem lineOK_map (k : Kind) (l : List Vals) : ∀ r ∈ l.map (mkRec ln k), LineOK ln r := by
  intro r hr
  obtain ⟨v, _, rfl⟩ := List.mem_map.1 hr
  exact lineOK_mk ln k v

theorem lineOK_append {a b : List Rec} (ha : ∀ r ∈ a, LineOK ln r) (hb : ∀ r ∈ b, LineOK ln r) :
    ∀ r ∈ a ++ b, LineOK ln r := by
  intro r hr
  rcases List.mem_append.1 hr with h | h
  · exact ha r h
  · exact hb r h

theorem lineOK_flatMap {α : Type} (l : List α) (f : α → List Rec) (h : ∀ x ∈ l, ∀ r ∈ f x, LineOK ln r) :
    ∀ r ∈ l.flatMap f, LineOK ln r := by
  intro r hr
  obtain ⟨x, hx, hrx⟩ := List.mem_flatMap.1 hr
  exact h x hx r hrx

theorem lineOK_views (it : Item Vals) (i : Nat) : ∀ r ∈ viewRecs ln it i, LineOK ln r := by
  unfold viewRecs
  exact lineOK_append ln (lineOK_append ln (lineOK_map ln _ _) (lineOK_map ln _ _)) (lineOK_map ln _ _)

theorem lineOK_check (it : Item Vals) : ∀ r ∈ checkRecs ln it, LineOK ln r := by
  unfold checkRecs
  refine lineOK_append ln (lineOK_append ln (lineOK_append ln (lineOK_append ln ?_ (lineOK_map ln _ _)) (lineOK_map ln _ _)) (lineOK_map ln _ _))
    (lineOK_flatMap ln _ _ (fun i _ => lineOK_views ln it i))
  intro r hr
  simp only [List.mem_singleton] at hr
  subst hr; exact lineOK_mk ln _ _

theorem lineOK_return (it : Item Vals) : ∀ r ∈ returnRecs ln it, LineOK ln r := by
  unfold returnRecs
  refine lineOK_append ln (lineOK_append ln (lineOK_append ln (lineOK_append ln (lineOK_append ln ?_ (lineOK_map ln _ _)) (lineOK_map ln _ _))
    (lineOK_map ln _ _)) (lineOK_map ln _ _)) (lineOK_flatMap ln _ _ (fun i _ => lineOK_views ln it i))
  intro r hr
  simp only [List.mem_singleton] at hr
  subst hr; exact lineOK_mk ln _ _

theorem lineOK_bundle (b : Bundle Vals) : ∀ r ∈ bundleRecs ln b, LineOK ln r := by
  unfold bundleRecs
  exact lineOK_append ln (lineOK_append ln (lineOK_append ln (lineOK_map ln _ _)
    (lineOK_flatMap ln _ _ (fun it _ => lineOK_check ln it))) (lineOK_flatMap ln _ _ (fun it _ => lineOK_return ln it)))
    (lineOK_map ln _ _)

theorem lineOK_cashLetter (cl : CashLetter Vals) : ∀ r ∈ clRecs ln cl, LineOK ln r := by
  unfold clRecs
  exact lineOK_append ln (lineOK_append ln (lineOK_append ln (lineOK_append ln (lineOK_append ln (lineOK_map ln _ _)
    (lineOK_map ln _ _)) (lineOK_map ln _ _)) (lineOK_flatMap ln _ _ (fun b _ => lineOK_bundle ln b))) (lineOK_map ln _ _))
    (lineOK_map ln _ _)

end

end Icl.C01
