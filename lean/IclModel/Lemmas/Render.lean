/-
Generic theorems about `render` (the model of every record's `String()`): exact length, exact
columns, frame.  They hold for every write table satisfying the decidable predicate `AllWf`; the
regenerated tables are shown to satisfy it by `decide` in Props/C02.lean.
-/
import IclModel.Lemmas.Conv
namespace Icl

/-- converters whose output width does not depend on the record's values -/
def FixedConv : Conv → Bool
  | .lit | .alpha | .numeric | .nbsm | .zstr | .date | .time | .numericBlankNonPos | .dateBlankZero => true
  | _ => false

/-- well-formed write-table entry -/
def WfW (f : WField) : Bool :=
  decide (f.width < maxGrow) &&
  (match f.conv with
   | .lit => f.width == 2 && f.src == "recordType"
   | .date | .dateBlankZero => f.width == 8
   | .time => f.width == 4
   | .alphaVar | .bytesVar | .image => f.width == 0 && f.lenField != ""
   | .opaque => false
   | _ => true)

def AllWf (ws : List WField) : Bool := ws.all WfW
def AllFixed (ws : List WField) : Bool := ws.all (fun f => FixedConv f.conv && !f.imageOnly)

/-- the unexported `recordType` has been set (constructor, `Parse` or `UnmarshalJSON`) -/
def TypeSet (v : Vals) : Prop := (v.s "recordType").length = 2

/-- number of bytes a field occupies -/
def lenOf (b64 : Bytes → Option Bytes) (f : WField) (v : Vals) : Nat :=
  match f.conv with
  | .alphaVar | .bytesVar => (varWidth v f.lenField).getD 0
  | .image =>
    match b64 (v.s f.src) with
    | some dec => dec.length
    | none => (varWidth v f.lenField).getD 0
  | _ => f.width

theorem varWidth_lt (v : Vals) (k : String) (n : Nat) (h : varWidth v k = some n) : n < maxGrow := by
  unfold varWidth at h
  simp only at h
  split at h
  · rename_i hv
    simp [validSizeInt] at hv
    cases h
    omega
  · cases h

theorem varField_length (v : Vals) (src k : String) :
    (match varWidth v k with
      | some n => alphaField (v.s src) n
      | none => []).length = (varWidth v k).getD 0 := by
  cases h : varWidth v k with
  | none => simp
  | some n => simp [alphaField_length _ _ (varWidth_lt v k n h)]

theorem renderField_length (b64 : Bytes → Option Bytes) (f : WField) (v : Vals)
    (h : WfW f = true) (ht : TypeSet v) : (renderField b64 f v).length = lenOf b64 f v := by
  unfold WfW at h
  simp only [Bool.and_eq_true, decide_eq_true_eq] at h
  obtain ⟨hw, hc⟩ := h
  unfold renderField lenOf
  cases hcv : f.conv <;> simp only [hcv] at hc ⊢
  · -- lit
    simp at hc; rw [hc.2]; unfold TypeSet at ht; omega
  · exact alphaField_length _ _ hw
  · exact numericField_length _ _ hw
  · exact nbsmField_length _ _ hw
  · exact zstrField_length _ _ hw
  · simp at hc; rw [fmtDate_length]; omega
  · simp at hc; rw [fmtTime_length]; omega
  · split
    · exact blanks_length _
    · exact numericField_length _ _ hw
  · simp at hc
    split
    · exact blanks_length _
    · rw [fmtDate_length]; omega
  · exact varField_length v f.src f.lenField
  · exact varField_length v f.src f.lenField
  · cases b64 (v.s f.src) with
    | some dec => simp
    | none => simp; exact varField_length v f.src f.lenField
  · simp at hc

/-- bytes contributed by one table entry -/
def fieldBytes (b64 : Bytes → Option Bytes) (incl : Bool) (f : WField) (v : Vals) : Bytes :=
  if f.imageOnly && !incl then [] else renderField b64 f v

def sumLen (b64 : Bytes → Option Bytes) (incl : Bool) (v : Vals) : List WField → Nat
  | [] => 0
  | f :: r => (if f.imageOnly && !incl then 0 else lenOf b64 f v) + sumLen b64 incl v r

theorem render_cons (b64 : Bytes → Option Bytes) (f : WField) (ws : List WField) (incl : Bool) (v : Vals) :
    render b64 (f :: ws) incl v = fieldBytes b64 incl f v ++ render b64 ws incl v := by
  simp [render, fieldBytes]

theorem render_append (b64 : Bytes → Option Bytes) (a b : List WField) (incl : Bool) (v : Vals) :
    render b64 (a ++ b) incl v = render b64 a incl v ++ render b64 b incl v := by
  induction a with
  | nil => simp [render]
  | cons f r ih => simp [render, ih]

/-- **length**: a record is exactly as long as the sum of its field widths -/
theorem render_length (b64 : Bytes → Option Bytes) (ws : List WField) (incl : Bool) (v : Vals)
    (h : AllWf ws = true) (ht : TypeSet v) :
    (render b64 ws incl v).length = sumLen b64 incl v ws := by
  induction ws with
  | nil => simp [render, sumLen]
  | cons f r ih =>
    simp only [AllWf, List.all_cons, Bool.and_eq_true] at h
    have ihr := ih (by simpa [AllWf] using h.2)
    simp only [render, sumLen, List.length_append, ihr]
    split
    · simp
    · rw [renderField_length b64 f v h.1 ht]

theorem sumLen_fixed (b64 : Bytes → Option Bytes) (ws : List WField) (incl : Bool) (v : Vals)
    (h : AllFixed ws = true) : sumLen b64 incl v ws = fixedWidth ws := by
  induction ws with
  | nil => simp [sumLen, fixedWidth]
  | cons f r ih =>
    simp only [AllFixed, List.all_cons, Bool.and_eq_true] at h
    have ihr := ih (by simpa [AllFixed] using h.2)
    obtain ⟨⟨hf, hi⟩, _⟩ := h
    simp only [sumLen, fixedWidth, ihr]
    simp at hi
    simp only [hi, Bool.false_and]
    unfold lenOf
    cases hc : f.conv <;> simp [hc, FixedConv] at hf ⊢

/-- **length, fixed-width records**: whatever the values, the record has its tabulated length -/
theorem render_length_fixed (b64 : Bytes → Option Bytes) (ws : List WField) (incl : Bool) (v : Vals)
    (h : AllWf ws = true) (hf : AllFixed ws = true) (ht : TypeSet v) :
    (render b64 ws incl v).length = fixedWidth ws := by
  rw [render_length b64 ws incl v h ht, sumLen_fixed b64 ws incl v hf]

/-- **columns**: the field after the prefix `pre` occupies exactly the columns
`[sumLen pre, sumLen pre + its own length)` and holds exactly its own rendering -/
theorem render_columns (b64 : Bytes → Option Bytes) (pre : List WField) (f : WField) (post : List WField)
    (incl : Bool) (v : Vals) (h : AllWf pre = true) (ht : TypeSet v) :
    ((render b64 (pre ++ f :: post) incl v).drop (sumLen b64 incl v pre)).take
      (fieldBytes b64 incl f v).length = fieldBytes b64 incl f v := by
  rw [render_append, render_cons, ← render_length b64 pre incl v h ht]
  simp

/-- the bytes before a field are the rendering of the fields before it: no field displaces a neighbour -/
theorem render_prefix (b64 : Bytes → Option Bytes) (pre post : List WField)
    (incl : Bool) (v : Vals) (h : AllWf pre = true) (ht : TypeSet v) :
    (render b64 (pre ++ post) incl v).take (sumLen b64 incl v pre) = render b64 pre incl v := by
  rw [render_append, ← render_length b64 pre incl v h ht]
  simp

/-! ### frame: a field's rendering depends only on its own source (and its own length field) -/

theorem varWidth_setS (v : Vals) (k lf : String) (x : Bytes) (h : lf ≠ k) :
    varWidth (v.setS k x) lf = varWidth v lf := by
  simp [varWidth, Vals.setS, h]

theorem renderField_setS (b64 : Bytes → Option Bytes) (f : WField) (v : Vals) (k : String) (x : Bytes)
    (h1 : f.src ≠ k) (h2 : f.lenField ≠ k) :
    renderField b64 f (v.setS k x) = renderField b64 f v := by
  unfold renderField
  cases f.conv <;> simp [Vals.setS, h1, varWidth, h2] <;> rfl

theorem renderField_setI (b64 : Bytes → Option Bytes) (f : WField) (v : Vals) (k : String) (x : Int)
    (h1 : f.src ≠ k) : renderField b64 f (v.setI k x) = renderField b64 f v := by
  unfold renderField
  cases f.conv <;> simp [Vals.setI, h1, varWidth] <;> rfl

theorem renderField_setD (b64 : Bytes → Option Bytes) (f : WField) (v : Vals) (k : String) (x : Date)
    (h1 : f.src ≠ k) : renderField b64 f (v.setD k x) = renderField b64 f v := by
  unfold renderField
  cases f.conv <;> simp [Vals.setD, h1, varWidth] <;> rfl

theorem renderField_setT (b64 : Bytes → Option Bytes) (f : WField) (v : Vals) (k : String) (x : HM)
    (h1 : f.src ≠ k) : renderField b64 f (v.setT k x) = renderField b64 f v := by
  unfold renderField
  cases f.conv <;> simp [Vals.setT, h1, varWidth] <;> rfl

/-- fields that do not read `k` -/
def Indep (k : String) (ws : List WField) : Bool := ws.all (fun f => f.src != k && f.lenField != k)

theorem render_setS_indep (b64 : Bytes → Option Bytes) (ws : List WField) (incl : Bool) (v : Vals)
    (k : String) (x : Bytes) (h : Indep k ws = true) :
    render b64 ws incl (v.setS k x) = render b64 ws incl v := by
  induction ws with
  | nil => simp [render]
  | cons f r ih =>
    simp only [Indep, List.all_cons, Bool.and_eq_true, bne_iff_ne, ne_eq] at h
    have ihr := ih (by simpa [Indep] using h.2)
    simp only [render, ihr, renderField_setS b64 f v k x h.1.1 h.1.2]

/-- **frame** (string-valued field): setting field `k`, read only by the entry `f`, leaves the bytes
of every other entry unchanged; when `f` is a fixed-width entry the other columns do not move. -/
theorem render_frame_S (b64 : Bytes → Option Bytes) (pre : List WField) (f : WField) (post : List WField)
    (incl : Bool) (v : Vals) (k : String) (x : Bytes)
    (hpre : Indep k pre = true) (hpost : Indep k post = true) :
    render b64 (pre ++ f :: post) incl (v.setS k x) =
      render b64 pre incl v ++ fieldBytes b64 incl f (v.setS k x) ++ render b64 post incl v := by
  rw [render_append, render_cons, render_setS_indep b64 pre incl v k x hpre,
    render_setS_indep b64 post incl v k x hpost]
  simp

theorem render_setI_indep (b64 : Bytes → Option Bytes) (ws : List WField) (incl : Bool) (v : Vals)
    (k : String) (x : Int) (h : Indep k ws = true) :
    render b64 ws incl (v.setI k x) = render b64 ws incl v := by
  induction ws with
  | nil => simp [render]
  | cons f r ih =>
    simp only [Indep, List.all_cons, Bool.and_eq_true, bne_iff_ne, ne_eq] at h
    have ihr := ih (by simpa [Indep] using h.2)
    simp only [render, ihr, renderField_setI b64 f v k x h.1.1]

theorem render_frame_I (b64 : Bytes → Option Bytes) (pre : List WField) (f : WField) (post : List WField)
    (incl : Bool) (v : Vals) (k : String) (x : Int)
    (hpre : Indep k pre = true) (hpost : Indep k post = true) :
    render b64 (pre ++ f :: post) incl (v.setI k x) =
      render b64 pre incl v ++ fieldBytes b64 incl f (v.setI k x) ++ render b64 post incl v := by
  rw [render_append, render_cons, render_setI_indep b64 pre incl v k x hpre,
    render_setI_indep b64 post incl v k x hpost]
  simp

theorem render_setD_indep (b64 : Bytes → Option Bytes) (ws : List WField) (incl : Bool) (v : Vals)
    (k : String) (x : Date) (h : Indep k ws = true) :
    render b64 ws incl (v.setD k x) = render b64 ws incl v := by
  induction ws with
  | nil => simp [render]
  | cons f r ih =>
    simp only [Indep, List.all_cons, Bool.and_eq_true, bne_iff_ne, ne_eq] at h
    have ihr := ih (by simpa [Indep] using h.2)
    simp only [render, ihr, renderField_setD b64 f v k x h.1.1]

theorem render_setT_indep (b64 : Bytes → Option Bytes) (ws : List WField) (incl : Bool) (v : Vals)
    (k : String) (x : HM) (h : Indep k ws = true) :
    render b64 ws incl (v.setT k x) = render b64 ws incl v := by
  induction ws with
  | nil => simp [render]
  | cons f r ih =>
    simp only [Indep, List.all_cons, Bool.and_eq_true, bne_iff_ne, ne_eq] at h
    have ihr := ih (by simpa [Indep] using h.2)
    simp only [render, ihr, renderField_setT b64 f v k x h.1.1]

/-- every Go field is read by exactly one table entry (as source or as length field of its own
section): the decidable side condition that makes the frame theorems apply to a whole table -/
def srcsOf (ws : List WField) : List String := ws.map (·.src)

end Icl

namespace Icl

/-- fixed-width entries are never image-only -/
def FixedNotImage (ws : List WField) : Bool := ws.all (fun f => !FixedConv f.conv || !f.imageOnly)

/-- split the length of a record into its fixed part and its variable sections -/
theorem sumLen_filter (b64 : Bytes → Option Bytes) (ws : List WField) (incl : Bool) (v : Vals)
    (h : AllWf ws = true) (hio : FixedNotImage ws = true) :
    sumLen b64 incl v ws
      = fixedWidth ws + sumLen b64 incl v (ws.filter (fun f => !FixedConv f.conv)) := by
  induction ws with
  | nil => simp [sumLen, fixedWidth]
  | cons f r ih =>
    simp only [AllWf, List.all_cons, Bool.and_eq_true] at h
    simp only [FixedNotImage, List.all_cons, Bool.and_eq_true] at hio
    have ihr := ih (by simpa [AllWf] using h.2) (by simpa [FixedNotImage] using hio.2)
    have hw := h.1
    unfold WfW at hw
    simp only [Bool.and_eq_true, decide_eq_true_eq] at hw
    cases hfc : FixedConv f.conv
    · -- variable entry: width 0
      have hw0 : f.width = 0 := by
        cases hc : f.conv <;> simp [hc, FixedConv] at hfc hw <;> first | exact hw.2.1 | skip
      simp [List.filter, hfc, sumLen, fixedWidth, ihr, hw0]; omega
    · have hni : f.imageOnly = false := by
        have := hio.1; simp [hfc] at this; exact this
      have hl : lenOf b64 f v = f.width := by
        unfold lenOf; cases hc : f.conv <;> simp [hc, FixedConv] at hfc ⊢
      simp [List.filter, hfc, sumLen, fixedWidth, ihr, hni, hl]; omega

end Icl
