/-
Soundness of the flattened form of validation rules: evaluating the statement tree of a
`Validate()` gives the verdict of the first firing site of its flattening.
-/
import IclModel.Sites
namespace Icl

/-- the body makes no assignment and contains no unrecognised statement -/
def noAssign : Stmt → Bool
  | .assign _ _ => false
  | .seq a b => noAssign a && noAssign b
  | .ite _ a b => noAssign a && noAssign b
  | _ => true

def verdictOf : VOut → Option String
  | .cont _ => none
  | .rejected f => some f
  | .stuck => some "<opaque>"

def pathHolds (cx : VCtx) (v : Vals) (p : List (BExp × Bool)) : Bool :=
  p.all (fun q => evalB cx v q.1 == q.2)

theorem pathHolds_append (cx : VCtx) (v : Vals) (p q : List (BExp × Bool)) :
    pathHolds cx v (p ++ q) = (pathHolds cx v p && pathHolds cx v q) := by
  simp [pathHolds, List.all_append]

theorem fires_eq (cx : VCtx) (v : Vals) (s : Site) : s.fires cx v = pathHolds cx v s.path := rfl

theorem pathHolds_snoc (cx : VCtx) (v : Vals) (p : List (BExp × Bool)) (c : BExp) (b : Bool) :
    pathHolds cx v (p ++ [(c, b)]) = (pathHolds cx v p && (evalB cx v c == b)) := by
  rw [pathHolds_append]; simp [pathHolds]

def firstFiring (cx : VCtx) (v : Vals) (l : List Site) : Option String :=
  (l.find? (fun s => s.fires cx v)).map (·.field)

theorem firstFiring_append (cx : VCtx) (v : Vals) (a b : List Site) :
    firstFiring cx v (a ++ b) = (firstFiring cx v a).or (firstFiring cx v b) := by
  simp only [firstFiring, List.find?_append]
  cases List.find? (fun s => s.fires cx v) a <;> simp

/-- no site under a path containing a condition that fails can fire -/
theorem sitesAux_dead (cx : VCtx) (v : Vals) (s : Stmt) (p : List (BExp × Bool))
    (hp : pathHolds cx v p = false) : firstFiring cx v (sitesAux s p) = none := by
  induction s generalizing p with
  | skip => simp [sitesAux, firstFiring]
  | seq a b iha ihb => simp [sitesAux, firstFiring_append, iha p hp, ihb p hp]
  | ite c a b iha ihb =>
    have h1 : pathHolds cx v (p ++ [(c, true)]) = false := by rw [pathHolds_snoc, hp]; rfl
    have h2 : pathHolds cx v (p ++ [(c, false)]) = false := by rw [pathHolds_snoc, hp]; rfl
    simp [sitesAux, firstFiring_append, iha _ h1, ihb _ h2]
  | reject f => simp [sitesAux, firstFiring, fires_eq, hp]
  | assign f x => simp [sitesAux, firstFiring, fires_eq, hp]
  | «opaque» => simp [sitesAux, firstFiring, fires_eq, hp]

/-- evaluation of an assignment-free body leaves the record unchanged -/
theorem evalS_noAssign_vals (cx : VCtx) (s : Stmt) (v v' : Vals) (h : noAssign s = true)
    (he : evalS cx s v = .cont v') : v' = v := by
  induction s generalizing v v' with
  | skip => simp [evalS] at he; exact he.symm
  | seq a b iha ihb =>
    simp only [noAssign, Bool.and_eq_true] at h
    simp only [evalS] at he
    cases hea : evalS cx a v with
    | cont va =>
      rw [hea] at he
      have := iha v va h.1 hea; subst this
      exact ihb _ v' h.2 he
    | rejected f => rw [hea] at he; cases he
    | stuck => rw [hea] at he; cases he
  | ite c a b iha ihb =>
    simp only [noAssign, Bool.and_eq_true] at h
    simp only [evalS] at he
    split at he
    · exact iha v v' h.1 he
    · exact ihb v v' h.2 he
  | reject f => simp [evalS] at he
  | assign f x => simp [noAssign] at h
  | «opaque» => simp [evalS] at he

/-- **flattening is sound**: under a path that holds, the verdict of an assignment-free statement is
the field of its first firing site (none: it falls through) -/
theorem evalS_sites (cx : VCtx) (s : Stmt) (p : List (BExp × Bool)) (v : Vals)
    (hna : noAssign s = true) (hp : pathHolds cx v p = true) :
    verdictOf (evalS cx s v) = firstFiring cx v (sitesAux s p) := by
  induction s generalizing p with
  | skip => simp [evalS, verdictOf, sitesAux, firstFiring]
  | seq a b iha ihb =>
    simp only [noAssign, Bool.and_eq_true] at hna
    simp only [evalS, sitesAux, firstFiring_append]
    have ha := iha p hna.1 hp
    cases hea : evalS cx a v with
    | cont va =>
      have hv := evalS_noAssign_vals cx a v va hna.1 hea; subst hv
      rw [hea] at ha; simp only [verdictOf] at ha
      rw [← ha]; simp only [Option.none_or]
      exact ihb p hna.2 hp
    | rejected f =>
      rw [hea] at ha; simp only [verdictOf] at ha ⊢
      rw [← ha]; rfl
    | stuck =>
      rw [hea] at ha; simp only [verdictOf] at ha ⊢
      rw [← ha]; rfl
  | ite c a b iha ihb =>
    simp only [noAssign, Bool.and_eq_true] at hna
    simp only [evalS, sitesAux, firstFiring_append]
    cases hc : evalB cx v c with
    | true =>
      have h1 : pathHolds cx v (p ++ [(c, true)]) = true := by rw [pathHolds_snoc, hp, hc]; rfl
      have h2 : pathHolds cx v (p ++ [(c, false)]) = false := by rw [pathHolds_snoc, hp, hc]; rfl
      simp only [if_true]
      rw [iha _ hna.1 h1, sitesAux_dead cx v b _ h2]; simp
    | false =>
      have h1 : pathHolds cx v (p ++ [(c, true)]) = false := by rw [pathHolds_snoc, hp, hc]; rfl
      have h2 : pathHolds cx v (p ++ [(c, false)]) = true := by rw [pathHolds_snoc, hp, hc]; rfl
      simp only [Bool.false_eq_true, if_false]
      rw [ihb _ hna.2 h2, sitesAux_dead cx v a _ h1]; simp
  | reject f =>
    have : (Site.fires cx v { field := f, path := p }) = true := by rw [fires_eq]; exact hp
    simp [evalS, verdictOf, sitesAux, firstFiring, this]
  | assign f x => simp [noAssign] at hna
  | «opaque» =>
    have : (Site.fires cx v { field := "<opaque>", path := p }) = true := by rw [fires_eq]; exact hp
    simp [evalS, verdictOf, sitesAux, firstFiring, this]

/-- on assignment-free site lists, `evalSites` is "first firing site" -/
theorem evalSites_firstFiring (cx : VCtx) (l : List Site) (v : Vals)
    (h : l.all (fun s => s.assign.isNone) = true) : (evalSites cx l v).1 = firstFiring cx v l := by
  induction l with
  | nil => simp [evalSites, firstFiring]
  | cons s r ih =>
    simp only [List.all_cons, Bool.and_eq_true] at h
    simp only [evalSites, firstFiring, List.find?_cons]
    cases hf : s.fires cx v with
    | true =>
      have : s.assign = none := by simpa using h.1
      simp [this]
    | false => simp; exact ih h.2

/-- **validation = first firing rule** for a `Validate()` body without assignments -/
theorem validate_sites (cx : VCtx) (s : Stmt) (v : Vals) (hna : noAssign s = true) :
    (validate cx s v).1 = firstFiring cx v (sites s) := by
  have h := evalS_sites cx s [] v hna (by simp [pathHolds])
  unfold validate sites
  cases he : evalS cx s v <;> simp [he, verdictOf] at h ⊢ <;> exact h

end Icl
