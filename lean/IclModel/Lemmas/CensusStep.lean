/-
The simulation between the model reader's step function (`rstep`, IclModel/Tree.lean) and the X9 nesting
automaton (`astep`, Props/C04.lean): one lemma per record kind.  `Rel c a ps`: after the same prefix
of the input the reader's record-holding state `c`, the automaton state `a` and the places `ps` the
automaton assigned agree - same open containers, same counters, and for every place of a record
below the file level the reader holds exactly as many records there as the automaton has assigned.
-/
import IclModel.Lemmas.Census
import IclModel.Lemmas.Automaton
namespace Icl.C04
open Icl

theorem bind_ok {ε α β : Type} (x : Except ε α) (f : α → Except ε β) (y : β) (h : (x >>= f) = .ok y) :
    ∃ v, x = .ok v ∧ f v = .ok y := by
  cases x with
  | error e => simp [bind, Except.bind] at h
  | ok v => exact ⟨v, rfl, by simpa [bind, Except.bind] using h⟩

/-- records below the file level -/
def inner (k : Kind) : Bool := k != .fileHeader && k != .fileControl

def openB (c : Core) : Bool := match c.curBundle with | some bd => bd.header.isSome | none => false

structure Rel (c : Core) (a : AState) (ps : List Place) : Prop where
  ok : a.ok = true
  inCL : a.inCL = c.cur.header.isSome
  inB : a.inB = openB c
  cl : a.cl = c.cashLetters.length + (if c.cur.header.isSome then 1 else 0)
  b : c.cur.header.isSome = true → a.b = c.cur.bundles.length + (if openB c then 1 else 0)
  it : openB c = true → ∀ bd, c.curBundle = some bd → a.it = bd.checks.length + bd.returns.length
  notMixed : ∀ bd, c.curBundle = some bd → bd.checks = [] ∨ bd.returns = []
  closedEmpty : openB c = false → ∀ bd, c.curBundle = some bd → bd.checks = [] ∧ bd.returns = []
  ctl : ∀ bd, c.curBundle = some bd → bd.control.isSome = bd.header.isSome
  curEmpty : c.cur.header.isSome = false →
    c.cur.bundles = [] ∧ c.cur.credits = [] ∧ c.cur.creditItems = [] ∧ c.cur.rns = [] ∧ openB c = false
  count : ∀ p, inner p.kind = true → (corePlaces c).count p = ps.count p

theorem rel_init (cur : CashLetter Vals) (h : cur = { header := none, control := none }) :
    Rel ⟨[], cur, none⟩ {} [] := by
  subst h
  refine ⟨rfl, rfl, rfl, rfl, ?_, ?_, ?_, ?_, ?_, ?_, ?_⟩ <;> simp [openB, corePlaces, openPlaces, cashLettersPlaces, cashLetterPlaces, bundlesPlaces]

/-- an open bundle implies an open cash letter -/
theorem Rel.openB_cl {c : Core} {a : AState} {ps : List Place} (r : Rel c a ps) (h : openB c = true) :
    c.cur.header.isSome = true := by
  cases hh : c.cur.header.isSome with
  | true => rfl
  | false => have := (r.curEmpty hh).2.2.2.2; rw [h] at this; cases this

/-- finishing tactic for the counting goal: split on whether the new place is the one counted -/
macro "count_fin" q:term "," p:term : tactic =>
  `(tactic| (by_cases hq : ($q : Place) = $p
             · subst hq; simp <;> omega
             · simp [hq] <;> omega))

/-! ### cash-letter level records -/

theorem rel_clAppend (c : Core) (a : AState) (ps : List Place) (r : Rel c a ps) (k : Kind)
    (hcl : c.cur.header.isSome = true) (cur' : CashLetter Vals)
    (hk : k = .credit ∨ k = .creditItem ∨ k = .rns)
    (hh : cur'.header = c.cur.header) (hb : cur'.bundles = c.cur.bundles)
    (hcr : cur'.credits.length = c.cur.credits.length + (if k = .credit then 1 else 0))
    (hci : cur'.creditItems.length = c.cur.creditItems.length + (if k = .creditItem then 1 else 0))
    (hrn : cur'.rns.length = c.cur.rns.length + (if k = .rns then 1 else 0)) :
    Rel ⟨c.cashLetters, cur', c.curBundle⟩ (astep a k).1 (ps ++ [(astep a k).2]) := by
  have hastep : astep a k = ({ a with ok := a.ok && a.inCL }, ⟨k, a.cl, 0, 0⟩) := by
    rcases hk with h | h | h <;> subst h <;> rfl
  rw [hastep]
  refine ⟨?_, ?_, ?_, ?_, ?_, ?_, ?_, ?_, ?_, ?_, ?_⟩
  · simp [r.ok, r.inCL, hcl]
  · simpa [hh] using r.inCL
  · exact r.inB
  · simpa [hh] using r.cl
  · intro _
    have ho : openB ⟨c.cashLetters, cur', c.curBundle⟩ = openB c := rfl
    rw [ho]
    simpa [hb] using r.b hcl
  · exact r.it
  · exact r.notMixed
  · exact r.closedEmpty
  · exact r.ctl
  · intro h0; simp [hh, hcl] at h0
  · intro p hp
    have := r.count p hp
    rw [List.count_append, ← this]
    simp only [corePlaces, openPlaces, cashLetterPlaces, List.count_append, List.count_replicate, hh, hb, hcr, hci, hrn, r.cl, hcl,
      List.count_cons, List.count_nil, if_true]
    rcases hk with h | h | h <;> subst h
    · count_fin ⟨.credit, c.cashLetters.length + 1, 0, 0⟩, p
    · count_fin ⟨.creditItem, c.cashLetters.length + 1, 0, 0⟩, p
    · count_fin ⟨.rns, c.cashLetters.length + 1, 0, 0⟩, p

/-! ### records attached to the last item of the open bundle -/

/-- kinds that follow an item, with the flavour of item they belong to (`none`: either) -/
def itemKind (k : Kind) : Bool :=
  k = .cdAddA ∨ k = .cdAddB ∨ k = .cdAddC ∨ k = .rdAddA ∨ k = .rdAddB ∨ k = .rdAddC ∨ k = .rdAddD ∨
  k = .ivDetail ∨ k = .ivData ∨ k = .ivAnalysis

theorem astep_itemKind (a : AState) (k : Kind) (h : itemKind k = true) :
    astep a k = ({ a with ok := a.ok && a.inB && a.it != 0 }, ⟨k, a.cl, a.b, a.it⟩) := by
  cases k <;> simp [itemKind] at h <;> rfl

theorem rel_lastItem (c : Core) (a : AState) (ps : List Place) (r : Rel c a ps) (k : Kind) (hk : itemKind k = true)
    (isCheck : Bool) (bd : Bundle Vals) (hcb : c.curBundle = some bd)
    (hne : (if isCheck then bd.checks else bd.returns) ≠ [])
    (f : Item Vals → Item Vals)
    (hf : ∀ cl b it x p, (itemPlaces isCheck cl b it (f x)).count p =
      (itemPlaces isCheck cl b it x).count p + (if (⟨k, cl, b, it⟩ : Place) = p then 1 else 0)) :
    Rel ⟨c.cashLetters, c.cur,
        some (if isCheck then { bd with checks := modifyLast f bd.checks } else { bd with returns := modifyLast f bd.returns })⟩
      (astep a k).1 (ps ++ [(astep a k).2]) := by
  rw [astep_itemKind a k hk]
  have hopen : openB c = true := by
    cases ho : openB c with
    | true => rfl
    | false =>
      have := r.closedEmpty ho bd hcb
      cases isCheck <;> simp [this.1, this.2] at hne
  have hcl := r.openB_cl hopen
  have hhdr : bd.header.isSome = true := by simpa [openB, hcb] using hopen
  have hit := r.it hopen bd hcb
  have hb := r.b hcl
  simp only [hopen, if_true] at hb
  have hmix := r.notMixed bd hcb
  have hlen : ∀ {β : Type} (g : β → β) (l : List β), (modifyLast g l).length = l.length := by
    intro β g l
    rcases List.eq_nil_or_concat l with h | ⟨l', x, h⟩
    · subst h; rfl
    · subst h; simp [List.concat_eq_append, modifyLast_concat]
  have hnil : ∀ {β : Type} (g : β → β) (l : List β), modifyLast g l = [] ↔ l = [] := by
    intro β g l
    constructor
    · intro h; have := congrArg List.length h; rw [hlen] at this; simpa using this
    · intro h; subst h; rfl
  refine ⟨?_, ?_, ?_, ?_, ?_, ?_, ?_, ?_, ?_, ?_, ?_⟩
  · have : a.it ≠ 0 := by
      rw [hit]
      cases isCheck
      · simp only [Bool.false_eq_true, if_false] at hne
        have : bd.returns.length ≠ 0 := by simpa using hne
        omega
      · simp only [if_true] at hne
        have : bd.checks.length ≠ 0 := by simpa using hne
        omega
    simp [r.ok, r.inB, hopen, this]
  · exact r.inCL
  · cases isCheck <;> simpa [openB, hcb] using r.inB
  · exact r.cl
  · intro _; cases isCheck <;> simpa [openB, hcb, hhdr, hopen] using r.b hcl
  · intro _ bd' hbd'
    cases isCheck <;> simp at hbd' <;> subst hbd' <;> simp [hlen, hit]
  · intro bd' hbd'
    cases isCheck <;> simp at hbd' <;> subst hbd' <;> simp [hnil] <;> exact hmix
  · intro ho; cases isCheck <;> simp [openB, hhdr] at ho
  · intro bd' hbd'
    have := r.ctl bd hcb
    cases isCheck <;> simp at hbd' <;> subst hbd' <;> simpa using this
  · intro h0; simp [hcl] at h0
  · intro p hp
    have := r.count p hp
    rw [List.count_append, ← this]
    simp only [corePlaces, openPlaces, hcb, List.count_append, List.count_cons, List.count_nil, r.cl, hcl, if_true, hb]
    cases isCheck
    · simp only [Bool.false_eq_true, if_false] at hne ⊢
      rcases List.eq_nil_or_concat bd.returns with h | ⟨l', x, h⟩
      · exact absurd h hne
      · rw [List.concat_eq_append] at h
        have hck : bd.checks = [] := by rcases hmix with h1 | h1 <;> simp_all
        simp only [bundlePlaces, h, modifyLast_concat, itemsPlaces_append, List.count_append, hf, hck, hit,
          List.length_append, List.length_singleton, List.length_nil]
        simp only [Nat.zero_add, beq_iff_eq]
        omega
    · simp only [if_true] at hne ⊢
      rcases List.eq_nil_or_concat bd.checks with h | ⟨l', x, h⟩
      · exact absurd h hne
      · rw [List.concat_eq_append] at h
        have hrt : bd.returns = [] := by rcases hmix with h1 | h1 <;> simp_all
        simp only [bundlePlaces, h, modifyLast_concat, itemsPlaces_append, List.count_append, hf, hrt, hit,
          List.length_append, List.length_singleton, List.length_nil]
        simp only [Nat.zero_add, Nat.add_zero, beq_iff_eq]
        omega

/-! ### a new item -/

theorem rel_newItem (c : Core) (a : AState) (ps : List Place) (r : Rel c a ps) (isCheck : Bool)
    (bd : Bundle Vals) (hcb : c.curBundle = some bd) (hhdr : bd.header.isSome = true)
    (hother : (if isCheck then bd.returns else bd.checks) = []) (v : Vals) :
    Rel ⟨c.cashLetters, c.cur,
        some (if isCheck then { bd with checks := bd.checks ++ [{ detail := v }] }
              else { bd with returns := bd.returns ++ [{ detail := v }] })⟩
      (astep a (if isCheck then .checkDetail else .returnDetail)).1
      (ps ++ [(astep a (if isCheck then .checkDetail else .returnDetail)).2]) := by
  have hastep : astep a (if isCheck then .checkDetail else .returnDetail) =
      ({ a with it := a.it + 1, ok := a.ok && a.inB }, ⟨if isCheck then .checkDetail else .returnDetail, a.cl, a.b, a.it + 1⟩) := by
    cases isCheck <;> rfl
  rw [hastep]
  have hopen : openB c = true := by simp [openB, hcb, hhdr]
  have hcl := r.openB_cl hopen
  have hit := r.it hopen bd hcb
  have hb := r.b hcl
  simp only [hopen, if_true] at hb
  refine ⟨?_, ?_, ?_, ?_, ?_, ?_, ?_, ?_, ?_, ?_, ?_⟩
  · simp [r.ok, r.inB, hopen]
  · exact r.inCL
  · cases isCheck <;> simpa [openB, hcb, hhdr] using r.inB
  · exact r.cl
  · intro _; cases isCheck <;> simpa [openB, hcb, hhdr, hopen] using r.b hcl
  · intro _ bd' hbd'
    cases isCheck <;> simp at hbd' <;> subst hbd' <;> simp [hit] <;> omega
  · intro bd' hbd'
    cases isCheck <;> simp at hbd' hother <;> subst hbd' <;> simp [hother]
  · intro ho; cases isCheck <;> simp [openB, hhdr] at ho
  · intro bd' hbd'
    have := r.ctl bd hcb
    cases isCheck <;> simp at hbd' <;> subst hbd' <;> simpa using this
  · intro h0; simp [hcl] at h0
  · intro p hp
    have := r.count p hp
    rw [List.count_append, ← this]
    simp only [corePlaces, openPlaces, hcb, List.count_append, List.count_cons, List.count_nil, r.cl, hcl, if_true, hb]
    cases isCheck
    · simp only [Bool.false_eq_true, if_false] at hother ⊢
      simp only [bundlePlaces, itemsPlaces_append, List.count_append, hother, hit, itemPlaces, List.length_nil,
        List.replicate_zero, List.append_nil, List.count_cons, List.count_nil, beq_iff_eq, Nat.zero_add,
        Bool.false_eq_true, if_false]
      omega
    · simp only [if_true] at hother ⊢
      simp only [bundlePlaces, itemsPlaces_append, List.count_append, hother, hit, itemPlaces, List.length_nil,
        List.replicate_zero, List.append_nil, List.count_cons, List.count_nil, beq_iff_eq, Nat.zero_add, Nat.add_zero,
        if_true]
      omega

/-! ### containers opened and closed -/

theorem closed_bundle_places (c : Core) (a : AState) (ps : List Place) (r : Rel c a ps) (h : openB c = false) (cl b : Nat) :
    openPlaces c cl b = [] := by
  unfold openPlaces
  cases hcb : c.curBundle with
  | none => rfl
  | some bd =>
    have he := r.closedEmpty h bd hcb
    have hh : bd.header.isSome = false := by simpa [openB, hcb] using h
    simp [bundlePlaces, he.1, he.2, hh, itemsPlaces]

theorem rel_bundleHeader (c : Core) (a : AState) (ps : List Place) (r : Rel c a ps)
    (hcl : c.cur.header.isSome = true) (hclosed : openB c = false) (v ctl : Vals) :
    Rel ⟨c.cashLetters, c.cur, some { header := some v, control := some ctl }⟩
      (astep a .bundleHeader).1 (ps ++ [(astep a .bundleHeader).2]) := by
  have hb := r.b hcl
  simp only [hclosed, Bool.false_eq_true, if_false, Nat.add_zero] at hb
  refine ⟨?_, ?_, ?_, ?_, ?_, ?_, ?_, ?_, ?_, ?_, ?_⟩
  · simp [astep, r.ok, r.inCL, r.inB, hcl, hclosed]
  · simpa [astep] using r.inCL
  · simp [astep, openB]
  · simpa [astep] using r.cl
  · intro _; simp [astep, openB, hb]
  · intro _ bd' hbd'; simp at hbd'; subst hbd'; simp [astep]
  · intro bd' hbd'; simp at hbd'; subst hbd'; simp
  · intro ho; simp [openB] at ho
  · intro bd' hbd'; simp at hbd'; subst hbd'; simp
  · intro h0; simp [hcl] at h0
  · intro p hp
    have := r.count p hp
    rw [List.count_append, ← this]
    have hcore : corePlaces c = cashLettersPlaces 0 c.cashLetters ++ cashLetterPlaces (c.cashLetters.length + 1) false c.cur := by
      simp only [corePlaces, closed_bundle_places c a ps r hclosed, List.append_nil]
    rw [hcore]
    simp only [corePlaces, openPlaces, List.count_append, List.count_nil, astep, r.cl, hcl, if_true, hb,
      bundlePlaces, itemsPlaces, Option.isSome_some, List.append_nil, Bool.false_eq_true, if_false, List.count_cons, beq_iff_eq,
      Nat.add_zero]

theorem rel_bundleControl (c : Core) (a : AState) (ps : List Place) (r : Rel c a ps)
    (bd : Bundle Vals) (hcb : c.curBundle = some bd) (hctl : bd.control.isSome = true) (v : Vals) :
    Rel ⟨c.cashLetters, { c.cur with bundles := c.cur.bundles ++ [{ bd with control := some v }] },
        some { header := none, control := none }⟩
      (astep a .bundleControl).1 (ps ++ [(astep a .bundleControl).2]) := by
  have hhdr : bd.header.isSome = true := by rw [← r.ctl bd hcb]; exact hctl
  have hopen : openB c = true := by simp [openB, hcb, hhdr]
  have hcl := r.openB_cl hopen
  have hb := r.b hcl
  simp only [hopen, if_true] at hb
  refine ⟨?_, ?_, ?_, ?_, ?_, ?_, ?_, ?_, ?_, ?_, ?_⟩
  · simp [astep, r.ok, r.inB, hopen]
  · simpa [astep] using r.inCL
  · simp [astep, openB]
  · simpa [astep] using r.cl
  · intro _; simp [astep, openB, hb]
  · intro ho; simp [openB] at ho
  · intro bd' hbd'; simp at hbd'; subst hbd'; simp
  · intro _ bd' hbd'; simp at hbd'; subst hbd'; simp
  · intro bd' hbd'; simp at hbd'; subst hbd'; simp
  · intro h0; simp [hcl] at h0
  · intro p hp
    have := r.count p hp
    rw [List.count_append, ← this]
    simp only [corePlaces, openPlaces, hcb, cashLetterPlaces, bundlesPlaces_append, List.count_append, List.count_nil, astep, r.cl, hcl, if_true, hb,
      bundlePlaces, itemsPlaces, Option.isSome_none, Bool.false_eq_true, if_false, List.append_nil, List.count_cons, beq_iff_eq,
      Nat.zero_add, hhdr, List.length_append, List.length_singleton]
    omega

theorem rel_cashLetterHeader (c : Core) (a : AState) (ps : List Place) (r : Rel c a ps)
    (hcl : c.cur.header.isSome = false) (v ctl : Vals) :
    Rel ⟨c.cashLetters, { header := some v, control := some ctl }, none⟩
      (astep a .cashLetterHeader).1 (ps ++ [(astep a .cashLetterHeader).2]) := by
  have he := r.curEmpty hcl
  have hcl' := r.cl
  simp only [hcl, Bool.false_eq_true, if_false, Nat.add_zero] at hcl'
  refine ⟨?_, ?_, ?_, ?_, ?_, ?_, ?_, ?_, ?_, ?_, ?_⟩
  · simp [astep, r.ok, r.inCL, hcl]
  · simp [astep]
  · simp [astep, openB]
  · simp [astep, hcl']
  · intro _; simp [astep, openB]
  · intro ho; simp [openB] at ho
  · intro bd' hbd'; simp at hbd'
  · intro _ bd' hbd'; simp at hbd'
  · intro bd' hbd'; simp at hbd'
  · intro h0; simp at h0
  · intro p hp
    have := r.count p hp
    rw [List.count_append, ← this]
    have hcore : corePlaces c = cashLettersPlaces 0 c.cashLetters := by
      simp only [corePlaces, closed_bundle_places c a ps r he.2.2.2.2, cashLetterPlaces, he.1, he.2.1, he.2.2.1, he.2.2.2.1, hcl,
        bundlesPlaces, List.length_nil, List.replicate_zero, List.append_nil, Bool.false_eq_true, if_false]
    rw [hcore]
    simp only [corePlaces, openPlaces, cashLetterPlaces, List.count_append, List.count_nil, astep, hcl', bundlesPlaces, List.length_nil,
      List.replicate_zero, List.append_nil, Bool.false_eq_true, if_false, Option.isSome_some, if_true, List.count_cons, beq_iff_eq,
      Nat.add_zero, Nat.zero_add]

theorem rel_cashLetterControl (c : Core) (a : AState) (ps : List Place) (r : Rel c a ps)
    (hcl : c.cur.header.isSome = true) (hclosed : openB c = false) (v : Vals) :
    Rel ⟨c.cashLetters ++ [{ c.cur with control := some v }], { header := none, control := none }, none⟩
      (astep a .cashLetterControl).1 (ps ++ [(astep a .cashLetterControl).2]) := by
  refine ⟨?_, ?_, ?_, ?_, ?_, ?_, ?_, ?_, ?_, ?_, ?_⟩
  · simp [astep, r.ok, r.inCL, r.inB, hcl, hclosed]
  · simp [astep]
  · simp [astep, openB]
  · simp [astep, r.cl, hcl]
  · intro h0; simp at h0
  · intro ho; simp [openB] at ho
  · intro bd' hbd'; simp at hbd'
  · intro _ bd' hbd'; simp at hbd'
  · intro bd' hbd'; simp at hbd'
  · intro _; simp [openB]
  · intro p hp
    have := r.count p hp
    rw [List.count_append, ← this]
    have hcore : corePlaces c = cashLettersPlaces 0 c.cashLetters ++ cashLetterPlaces (c.cashLetters.length + 1) false c.cur := by
      simp only [corePlaces, closed_bundle_places c a ps r hclosed, List.append_nil]
    rw [hcore]
    simp only [corePlaces, openPlaces, cashLettersPlaces_append, cashLetterPlaces, List.count_append,
      List.count_nil, astep, r.cl, hcl, if_true, bundlesPlaces, List.length_nil, List.replicate_zero, List.append_nil,
      Option.isSome_none, Bool.false_eq_true, if_false, List.count_cons, beq_iff_eq, Nat.add_zero, Nat.zero_add, List.length_append,
      List.length_singleton]
    omega

/-- file header / file control: nothing below the file level moves -/
theorem rel_fileLevel (c : Core) (a : AState) (ps : List Place) (r : Rel c a ps) (k : Kind)
    (hk : k = .fileHeader ∨ (k = .fileControl ∧ c.cur.header.isSome = false)) :
    Rel c (astep a k).1 (ps ++ [(astep a k).2]) := by
  rcases hk with h | ⟨h, hcl⟩ <;> subst h
  · refine ⟨?_, r.inCL, r.inB, r.cl, r.b, r.it, r.notMixed, r.closedEmpty, r.ctl, r.curEmpty, ?_⟩
    · simpa [astep] using r.ok
    · intro p hp
      rw [List.count_append, r.count p hp]
      have : (astep a .fileHeader).2 ≠ p := by
        intro e; rw [← e] at hp; simp [astep, inner] at hp
      simp [this]
  · refine ⟨?_, r.inCL, r.inB, r.cl, r.b, r.it, r.notMixed, r.closedEmpty, r.ctl, r.curEmpty, ?_⟩
    · simp [astep, r.ok, r.inCL, hcl]
    · intro p hp
      rw [List.count_append, r.count p hp]
      have : (astep a .fileControl).2 ≠ p := by
        intro e; rw [← e] at hp; simp [astep, inner] at hp
      simp [this]

end Icl.C04
