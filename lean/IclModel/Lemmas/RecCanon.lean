/-
From canonical record values to C01's per-record premise `RecOK` (ASCII renderings, fixed-width
record kinds): the rendered line is a line of its kind, 80 bytes long, and the reader's decoding of it
(layout-driven parse + the record's validation) returns the record.
-/
import IclModel.Lemmas.RoundTrip
import IclModel.Lemmas.Builder
import IclModel.Lemmas.WriterLink
namespace Icl.C01
open Icl Icl.C04

theorem kindOfLine_tag (k : Kind) (rest : Bytes) : kindOfLine (k.tag ++ rest) = some k := by
  cases k <;> simp [kindOfLine, Kind.tag, Kind.all, ebcTag] <;> decide

/-- the first written field is the record type -/
def TypeFirst (ws : List WField) : Bool :=
  match ws with
  | f :: _ => f.conv == .lit && f.src == "recordType" && !f.imageOnly
  | [] => false

theorem render_typeFirst (b64 : Bytes → Option Bytes) (ws : List WField) (v : Vals) (h : TypeFirst ws = true) :
    ∃ rest, render b64 ws true v = v.s "recordType" ++ rest := by
  cases ws with
  | nil => simp [TypeFirst] at h
  | cons f r =>
    simp only [TypeFirst, Bool.and_eq_true, beq_iff_eq, Bool.not_eq_true'] at h
    obtain ⟨⟨hc, hs⟩, hi⟩ := h
    refine ⟨render b64 r true v, ?_⟩
    simp [render, hi, renderField, hc, hs]

/-- a record value of kind `k` that is its own canonical form: the type code is set, every written field
holds a value its column holds as such, nothing is set outside what `Parse()` sets, and the record is valid -/
structure RecCanonFrom (m : Model) (k : Kind) (v0 v : Vals) : Prop where
  typeSet : v.s "recordType" = k.tag
  canon : ∀ f ∈ (m.layout k).write, Relevant (assignDsts (m.layout k).parse) f →
    CanonField m.b64 (rawDsts (m.layout k).parse) f v
  /-- where `Parse()` counts characters rather than bytes: the rendering is text of one byte per character -/
  runes : ∀ st ∈ (m.layout k).parse, usesRunes st = true →
    runeCount (render m.b64 (m.layout k).write true v) = (render m.b64 (m.layout k).write true v).length
  /-- `v` holds nothing but what `Parse()` stores into the value `v0` the reader parses into -/
  shaped : replay m.now (m.layout k).setType v (m.layout k).parse v0 = v
  valid : m.validateK k v = (none, v)

/-- canonical with respect to the value the reader parses this kind into (a `New<T>()` template or the zero value) -/
abbrev RecCanon (m : Model) (k : Kind) (v : Vals) : Prop := RecCanonFrom m k (tmpl m k) v

/-- what `decide` establishes per record kind on the regenerated layout (kinds of at least 80 columns without
variable sections before column 80) -/
def FixedKind (m : Model) (k : Kind) : Bool :=
  LayoutOK (m.layout k) && TypeFirst (m.layout k).write && decide (80 ≤ (endOff (m.layout k).write ⟨0, []⟩).c) &&
    k != .ivData && k != .cdAddB && k != .rdAddC

theorem canon_typeSet (m : Model) (k : Kind) (v0 v : Vals) (hc : RecCanonFrom m k v0 v) : TypeSet v := by
  unfold TypeSet; rw [hc.typeSet]; cases k <;> rfl

/-- the reader's layout-driven parse of the rendering of a canonical record returns the record -/
theorem parse_canon_from (m : Model) (k : Kind) (hl : LayoutOK (m.layout k) = true) (v0 v : Vals) (hc : RecCanonFrom m k v0 v) :
    parseValidate m k id (lineOf m k (some v)) v0 = .ok v := by
  simp only [LayoutOK, Bool.and_eq_true] at hl
  have hp := parse_render m.b64 m.now (m.layout k).setType (m.layout k).write v (rawDsts (m.layout k).parse)
    (assignDsts (m.layout k).parse) hl.1
    (canon_typeSet m k v0 v hc) hc.canon (m.layout k).parse {} v0 (fun d hd => hd) hc.runes (by intro d hd; cases hd) hl.2
  have he : envOf v ({} : PSt).binds = [] := rfl
  rw [he, hc.shaped] at hp
  unfold parseValidate RecLayout.parseRec
  simp only [lineOf]
  rw [hp]
  simp only [hc.valid]

theorem parse_canon (m : Model) (k : Kind) (hl : LayoutOK (m.layout k) = true) (v : Vals) (hc : RecCanon m k v) :
    parseValidate m k id (lineOf m k (some v)) (tmpl m k) = .ok v := parse_canon_from m k hl (tmpl m k) v hc

theorem line_length_ge (m : Model) (k : Kind) (hl : LayoutOK (m.layout k) = true) (v : Vals) (hc : RecCanon m k v) :
    (endOff (m.layout k).write ⟨0, []⟩).c ≤ (lineOf m k (some v)).length := by
  simp only [LayoutOK, Bool.and_eq_true] at hl
  have hsym : ∀ g ∈ (m.layout k).write, LenIsSym m.b64 g v := lenIsSym_all m.b64 _ _ _ v hc.canon
  have hE := endOff_val m.b64 v (canon_typeSet m k _ v hc) (m.layout k).write ⟨0, []⟩ hl.1 hsym
  have hE0 : (⟨0, []⟩ : SymOff).val v = 0 := by simp [SymOff.val, sumW]
  rw [hE0, Nat.zero_add] at hE
  simp only [lineOf]
  rw [← hE]; unfold SymOff.val; omega

/-- **C01's per-record premise from canonical values** (ASCII): the line `String()` renders for a
canonical record is read back by the reader's decoding as that record -/
theorem recOK_ascii (m : Model) (e : Enc) (he : e.ebcdic = false) (k : Kind) (hk : FixedKind m k = true)
    (v : Vals) (hc : RecCanon m k v) : RecOK m e (fun k v => lineOf m k (some v)) k v := by
  simp only [FixedKind, Bool.and_eq_true, decide_eq_true_eq, bne_iff_ne, ne_eq] at hk
  obtain ⟨⟨⟨⟨⟨hs, htf⟩, h80⟩, hk1⟩, hk2⟩, hk3⟩ := hk
  obtain ⟨rest, hr⟩ := render_typeFirst m.b64 (m.layout k).write v htf
  have hkind : kindOfLine (lineOf m k (some v)) = some k := by
    simp only [lineOf, hr, hc.typeSet]; exact kindOfLine_tag k rest
  have hlen := line_length_ge m k hs v hc
  refine ⟨hkind, ?_, ?_⟩
  · have : minLen m e (lineOf m k (some v)) = 80 := by
      unfold minLen; rw [hkind]; cases k <;> simp_all
    show minLen m e (lineOf m k (some v)) ≤ (lineOf m k (some v)).length
    rw [this]; omega
  · have hpv := parse_canon m k hs v hc
    show recParse m e k (lineOf m k (some v)) (tmpl m k) = .ok v
    cases k <;> simp_all [recParse, ibm1047]


/-! ### records with variable sections: the reader's minimum-length test passes on a canonical rendering -/

/-- a fixed-width string field written at symbolic offset `o` that holds the announced length `lf` -/
def isLenField (p : SymOff × WField) (o : SymOff) (w : Nat) (lf : String) : Bool :=
  p.1 == o && p.2.width == w && p.2.src == lf && (p.2.conv == .zstr || p.2.conv == .alpha)

/-- the bytes of a canonical length field, read as a number, are the announced length -/
theorem lenField_reads (m : Model) (k : Kind) (hl : LayoutOK (m.layout k) = true) (v : Vals) (hc : RecCanon m k v)
    (o : SymOff) (w : Nat) (lf : String) (hnr : (rawDsts (m.layout k).parse).contains lf = false)
    (hasg : (assignDsts (m.layout k).parse).contains lf = true)
    (hsp : (spans (m.layout k).write ⟨0, []⟩).any (fun p => isLenField p o w lf) = true) :
    ∃ pre post, lineOf m k (some v) = pre ++ post ∧ pre.length = o.val v ∧ w ≤ post.length ∧
      parseNum (post.take w) = parseNum (v.s lf) := by
  simp only [LayoutOK, Bool.and_eq_true] at hl
  have ht := canon_typeSet m k _ v hc
  have hsym : ∀ g ∈ (m.layout k).write, LenIsSym m.b64 g v := lenIsSym_all m.b64 _ _ _ v hc.canon
  simp only [List.any_eq_true] at hsp
  obtain ⟨⟨o', f⟩, hmem, hp⟩ := hsp
  simp only [isLenField, Bool.and_eq_true, beq_iff_eq, Bool.or_eq_true] at hp
  obtain ⟨⟨⟨ho, hw⟩, hsrc⟩, hconv⟩ := hp
  subst ho
  obtain ⟨pre, post, h1, h2, h3⟩ := span_split m.b64 v ht (m.layout k).write ⟨0, []⟩ o' f hl.1 hsym hmem
  have hE0 : (⟨0, []⟩ : SymOff).val v = 0 := by simp [SymOff.val, sumW]
  rw [hE0, Nat.zero_add] at h2
  have hfw : f ∈ (m.layout k).write := by
    have : ∀ (ws : List WField) (o0 : SymOff), (o', f) ∈ spans ws o0 → f ∈ ws := by
      intro ws
      induction ws with
      | nil => intro o0 h; simp [spans] at h
      | cons g r ihh =>
        intro o0 h
        simp only [spans, List.mem_cons, Prod.mk.injEq] at h
        rcases h with ⟨_, hf⟩ | h
        · simp [hf]
        · exact List.mem_cons_of_mem _ (ihh _ h)
    exact this _ _ hmem
  have hwfF : WfW f = true := by
    have := hl.1; simp only [AllWf, List.all_eq_true] at this; exact this f hfw
  have hcf := hc.canon f hfw (Or.inr (by rw [hsrc]; simpa using hasg))
  have hwid : f.width < maxGrow := by
    unfold WfW at hwfF; simp only [Bool.and_eq_true, decide_eq_true_eq] at hwfF; exact hwfF.1
  have hlenF : (renderField m.b64 f v).length = w := by
    rw [renderField_length m.b64 f v hwfF ht]
    unfold lenOf
    rcases hconv with hcv | hcv <;> simp [hcv, hw]
  have hnum : parseNum (renderField m.b64 f v) = parseNum (v.s lf) := by
    unfold CanonField at hcf
    unfold renderField
    rcases hconv with hcv | hcv
    · simp only [hcv] at hcf ⊢
      rw [hsrc] at hcf ⊢
      have hz : zstrField (v.s lf) f.width = v.s lf := by
        rw [zstrField_fit _ _ (by omega) hwid]; simp [hcf.2]
      rw [hz]
    · simp only [hcv] at hcf ⊢
      rw [hsrc] at hcf ⊢
      simp only [hnr, Bool.false_eq_true, if_false] at hcf
      have := parseStr_alphaField (v.s lf) f.width hcf.1 hcf.2 hwid
      unfold parseStr at this
      unfold parseNum
      rw [this]
      have ht2 := trimSpace_padded (v.s lf) 0 0 hcf.1
      simp only [List.replicate_zero, List.nil_append, List.append_nil] at ht2
      rw [ht2]
  refine ⟨pre, renderField m.b64 f v ++ post, ?_, h2, ?_, ?_⟩
  · simp only [lineOf]; rw [h1, List.append_assoc]
  · simp only [List.length_append]; omega
  · have : (renderField m.b64 f v ++ post).take w = renderField m.b64 f v := by
      rw [← hlenF]; simp
    rw [this, hnum]

theorem line_length_eq (m : Model) (k : Kind) (hl : LayoutOK (m.layout k) = true) (v : Vals) (hc : RecCanon m k v) :
    (lineOf m k (some v)).length = (endOff (m.layout k).write ⟨0, []⟩).val v := by
  simp only [LayoutOK, Bool.and_eq_true] at hl
  have hsym : ∀ g ∈ (m.layout k).write, LenIsSym m.b64 g v := lenIsSym_all m.b64 _ _ _ v hc.canon
  have hE := endOff_val m.b64 v (canon_typeSet m k _ v hc) (m.layout k).write ⟨0, []⟩ hl.1 hsym
  have hE0 : (⟨0, []⟩ : SymOff).val v = 0 := by simp [SymOff.val, sumW]
  rw [hE0, Nat.zero_add] at hE
  simp only [lineOf]; exact hE.symm

theorem canon_varLenOK (m : Model) (k : Kind) (v : Vals) (hc : RecCanon m k v) (lf : String)
    (h : (varLens (m.layout k).write).contains lf = true) : LenOK v lf := by
  obtain ⟨g, hg, hgv, hgl⟩ := varLens_mem _ lf h
  rw [← hgl]; exact canon_lenOK m.b64 _ g v (hc.canon g hg (Or.inl hgv)) hgv

/-- records 27 and 34: 46 columns plus the image reference key announced in columns 19-22 -/
def KeyKind (m : Model) (k : Kind) : Bool :=
  LayoutOK (m.layout k) && TypeFirst (m.layout k).write && (k == .cdAddB || k == .rdAddC) &&
    endOff (m.layout k).write ⟨0, []⟩ == ⟨46, ["LengthImageReferenceKey"]⟩ &&
    (spans (m.layout k).write ⟨0, []⟩).any (fun p => isLenField p ⟨18, []⟩ 4 "LengthImageReferenceKey") &&
    (varLens (m.layout k).write).contains "LengthImageReferenceKey" &&
    !(rawDsts (m.layout k).parse).contains "LengthImageReferenceKey" &&
    (assignDsts (m.layout k).parse).contains "LengthImageReferenceKey"

theorem drop_take_of_append (pre post : Bytes) (n w : Nat) (h : pre.length = n) (hw : w ≤ post.length) :
    (((pre ++ post).take (n + w)).drop n).take w = post.take w := by
  subst h
  rw [List.take_append]
  simp [List.take_take]

theorem recOK_ascii_key (m : Model) (e : Enc) (he : e.ebcdic = false) (k : Kind) (hk : KeyKind m k = true)
    (v : Vals) (hc : RecCanon m k v) : RecOK m e (fun k v => lineOf m k (some v)) k v := by
  simp only [KeyKind, Bool.and_eq_true, beq_iff_eq, Bool.or_eq_true, Bool.not_eq_true'] at hk
  obtain ⟨⟨⟨⟨⟨⟨⟨hs, htf⟩, hkk⟩, hE⟩, hsp⟩, hvl⟩, hnr⟩, hasg⟩ := hk
  obtain ⟨rest, hr⟩ := render_typeFirst m.b64 (m.layout k).write v htf
  have hkind : kindOfLine (lineOf m k (some v)) = some k := by
    simp only [lineOf, hr, hc.typeSet]; exact kindOfLine_tag k rest
  have hlen := line_length_eq m k hs v hc
  rw [hE] at hlen
  have hlok := canon_varLenOK m k v hc _ hvl
  have hwl := widthOfLen_of_lenOK v _ hlok
  obtain ⟨pre, post, h1, h2, h3, h4⟩ := lenField_reads m k hs v hc ⟨18, []⟩ 4 "LengthImageReferenceKey" hnr hasg hsp
  have hpre : pre.length = 18 := by rw [h2]; simp [SymOff.val, sumW]
  refine ⟨hkind, ?_, ?_⟩
  · show minLen m e (lineOf m k (some v)) ≤ (lineOf m k (some v)).length
    have hval : (⟨46, ["LengthImageReferenceKey"]⟩ : SymOff).val v = 46 + widthOfLen v "LengthImageReferenceKey" := by
      simp [SymOff.val, sumW]
    rw [hval] at hlen
    have hm : minLen m e (lineOf m k (some v)) = 46 + widthOfLen v "LengthImageReferenceKey" := by
      unfold minLen
      rw [hkind]
      have hnl : ¬ (lineOf m k (some v)).length < 22 := by omega
      have hn : parseNum ((((lineOf m k (some v)).take 22).drop 18).take 4) = parseNum (v.s "LengthImageReferenceKey") := by
        rw [h1, drop_take_of_append pre post 18 4 hpre h3, h4]
      rcases hkk with hkk | hkk <;> subst hkk <;>
        simp only [hnl, if_false, he, Bool.false_eq_true, id] <;> rw [hn] <;>
        (have h0 := hlok.1
         have : ¬ parseNum (v.s "LengthImageReferenceKey") < 0 := by omega
         simp only [this, if_false]
         omega)
    rw [hm, hlen]; exact Nat.le_refl _
  · have hpv := parse_canon m k hs v hc
    show recParse m e k (lineOf m k (some v)) (tmpl m k) = .ok v
    rcases hkk with hkk | hkk <;> subst hkk <;> simp only [recParse, he, Bool.false_eq_true, if_false, id] <;> exact hpv


/-! ### record 52 -/

theorem ivMinLen_step (l : Bytes) (stop w : Nat) (ws : List Nat) (pre post : Bytes) (n : Int)
    (h1 : l = pre ++ post) (h2 : pre.length = stop) (h3 : w ≤ post.length) (h4 : parseNum (post.take w) = n) (hn : 0 ≤ n) :
    ivMinLen id l stop (w :: ws) = ivMinLen id l (stop + w + n.toNat) ws := by
  have hd : l.drop stop = post := by rw [h1, ← h2]; simp
  have hl : ¬ l.length < stop + w := by rw [h1, List.length_append]; omega
  rw [ivMinLen]
  simp only [hl, if_false, hd, id, h4]
  have : ¬ n < 0 := by omega
  simp only [this, if_false]

def IvKind (m : Model) (k : Kind) : Bool :=
  LayoutOK (m.layout k) && TypeFirst (m.layout k).write && k == .ivData &&
    endOff (m.layout k).write ⟨0, []⟩ == ⟨117, ["LengthImageReferenceKey", "LengthDigitalSignature", "LengthImageData"]⟩ &&
    (spans (m.layout k).write ⟨0, []⟩).any (fun p => isLenField p ⟨101, []⟩ 4 "LengthImageReferenceKey") &&
    (spans (m.layout k).write ⟨0, []⟩).any (fun p => isLenField p ⟨105, ["LengthImageReferenceKey"]⟩ 5 "LengthDigitalSignature") &&
    (spans (m.layout k).write ⟨0, []⟩).any (fun p => isLenField p ⟨110, ["LengthImageReferenceKey", "LengthDigitalSignature"]⟩ 7 "LengthImageData") &&
    (varLens (m.layout k).write).contains "LengthImageReferenceKey" &&
    (varLens (m.layout k).write).contains "LengthDigitalSignature" &&
    (varLens (m.layout k).write).contains "LengthImageData" &&
    !(rawDsts (m.layout k).parse).contains "LengthImageReferenceKey" &&
    !(rawDsts (m.layout k).parse).contains "LengthDigitalSignature" &&
    !(rawDsts (m.layout k).parse).contains "LengthImageData" &&
    (assignDsts (m.layout k).parse).contains "LengthImageReferenceKey" &&
    (assignDsts (m.layout k).parse).contains "LengthDigitalSignature" &&
    (assignDsts (m.layout k).parse).contains "LengthImageData"

theorem recOK_ascii_iv (m : Model) (e : Enc) (he : e.ebcdic = false) (k : Kind) (hk : IvKind m k = true)
    (v : Vals) (hc : RecCanon m k v) : RecOK m e (fun k v => lineOf m k (some v)) k v := by
  simp only [IvKind, Bool.and_eq_true, beq_iff_eq, Bool.not_eq_true'] at hk
  obtain ⟨⟨⟨⟨⟨⟨⟨⟨⟨⟨⟨⟨⟨⟨⟨hs, htf⟩, hkk⟩, hE⟩, hsp1⟩, hsp2⟩, hsp3⟩, hv1⟩, hv2⟩, hv3⟩, hn1⟩, hn2⟩, hn3⟩, ha1⟩, ha2⟩, ha3⟩ := hk
  subst hkk
  obtain ⟨rest, hr⟩ := render_typeFirst m.b64 (m.layout .ivData).write v htf
  have hkind : kindOfLine (lineOf m .ivData (some v)) = some .ivData := by
    simp only [lineOf, hr, hc.typeSet]; exact kindOfLine_tag .ivData rest
  have hlen := line_length_eq m .ivData hs v hc
  rw [hE] at hlen
  have hl1 := canon_varLenOK m .ivData v hc _ hv1
  have hl2 := canon_varLenOK m .ivData v hc _ hv2
  have hl3 := canon_varLenOK m .ivData v hc _ hv3
  have hw1 := widthOfLen_of_lenOK v _ hl1
  have hw2 := widthOfLen_of_lenOK v _ hl2
  have hw3 := widthOfLen_of_lenOK v _ hl3
  obtain ⟨p1, q1, a1, a2, a3, a4⟩ := lenField_reads m .ivData hs v hc _ 4 _ hn1 ha1 hsp1
  obtain ⟨p2, q2, b1, b2, b3, b4⟩ := lenField_reads m .ivData hs v hc _ 5 _ hn2 ha2 hsp2
  obtain ⟨p3, q3, c1, c2, c3, c4⟩ := lenField_reads m .ivData hs v hc _ 7 _ hn3 ha3 hsp3
  simp only [SymOff.val, sumW, Nat.add_zero] at a2 b2 c2 hlen
  refine ⟨hkind, ?_, ?_⟩
  · show minLen m e (lineOf m .ivData (some v)) ≤ (lineOf m .ivData (some v)).length
    have hm : minLen m e (lineOf m .ivData (some v)) = (lineOf m .ivData (some v)).length := by
      unfold minLen
      rw [hkind]
      have hnl : ¬ (lineOf m .ivData (some v)).length < 80 := by omega
      simp only [hnl, if_false, he, Bool.false_eq_true]
      rw [ivMinLen_step _ 101 4 _ p1 q1 _ a1 a2 a3 a4 hl1.1]
      rw [ivMinLen_step _ _ 5 _ p2 q2 _ b1 (by rw [b2]; omega) b3 b4 hl2.1]
      rw [ivMinLen_step _ _ 7 _ p3 q3 _ c1 (by rw [c2]; omega) c3 c4 hl3.1]
      simp only [ivMinLen]
      omega
    rw [hm]; exact Nat.le_refl _
  · have hpv := parse_canon m .ivData hs v hc
    show recParse m e .ivData (lineOf m .ivData (some v)) (tmpl m .ivData) = .ok v
    simp only [recParse, he, Bool.false_eq_true, if_false]
    exact hpv


/-! ### every kind, and whole files -/

/-- what `decide` establishes for each of the 21 record kinds on the regenerated layouts -/
def KindOK (m : Model) (k : Kind) : Bool := FixedKind m k || KeyKind m k || IvKind m k

theorem recOK_ascii_all (m : Model) (e : Enc) (he : e.ebcdic = false) (k : Kind) (hk : KindOK m k = true)
    (v : Vals) (hc : RecCanon m k v) : RecOK m e (fun k v => lineOf m k (some v)) k v := by
  simp only [KindOK, Bool.or_eq_true] at hk
  rcases hk with (hk | hk) | hk
  · exact recOK_ascii m e he k hk v hc
  · exact recOK_ascii_key m e he k hk v hc
  · exact recOK_ascii_iv m e he k hk v hc

/-- every record of an item satisfies `P` -/
def ItemAll (P : Kind → Vals → Prop) (isCheck : Bool) (it : Item Vals) : Prop :=
  P (if isCheck then .checkDetail else .returnDetail) it.detail ∧
  (∀ v ∈ it.addA, P (if isCheck then .cdAddA else .rdAddA) v) ∧
  (∀ v ∈ it.addB, P (if isCheck then .cdAddB else .rdAddB) v) ∧
  (∀ v ∈ it.addC, P (if isCheck then .cdAddC else .rdAddC) v) ∧
  (∀ v ∈ it.addD, P .rdAddD v) ∧
  (∀ v ∈ it.ivDetail, P .ivDetail v) ∧ (∀ v ∈ it.ivData, P .ivData v) ∧
  (∀ v ∈ it.ivAnalysis, P .ivAnalysis v)

theorem itemOK_of_all (m : Model) (e : Enc) (ln : Kind → Vals → Bytes) (P : Kind → Vals → Prop)
    (hrec : ∀ k v, P k v → RecOK m e ln k v) (isCheck : Bool) (it : Item Vals) (h : ItemAll P isCheck it) :
    ItemOK m e ln isCheck it := by
  obtain ⟨h1, h2, h3, h4, h5, h6, h7, h8⟩ := h
  exact ⟨hrec _ _ h1, fun v hv => hrec _ _ (h2 v hv), fun v hv => hrec _ _ (h3 v hv), fun v hv => hrec _ _ (h4 v hv),
    fun v hv => hrec _ _ (h5 v hv), fun v hv => hrec _ _ (h6 v hv), fun v hv => hrec _ _ (h7 v hv),
    fun v hv => hrec _ _ (h8 v hv)⟩

/-- a bundle in canonical form: header and control present, forward items or returns (not both), the
container-level validation of the reader passes, every record satisfies `P` -/
structure BundleAll (P : Kind → Vals → Prop) (b : Bundle Vals) : Prop where
  hdr : ∃ h, b.header = some h ∧ P .bundleHeader h
  ctl : ∃ c, b.control = some c ∧ P .bundleControl c
  oneKind : b.checks = [] ∨ b.returns = []
  valid : bundleValidate b = none
  checks : ∀ it ∈ b.checks, ItemAll P true it ∧ ItemWF true it
  returns : ∀ it ∈ b.returns, ItemAll P false it ∧ ItemWF false it

theorem bundleOK_of_all (m : Model) (e : Enc) (ln : Kind → Vals → Bytes) (P : Kind → Vals → Prop)
    (hrec : ∀ k v, P k v → RecOK m e ln k v) (b : Bundle Vals) (h : BundleAll P b) : BundleOK m e ln b where
  hdr := by obtain ⟨x, hx, hc⟩ := h.hdr; exact ⟨x, hx, hrec _ _ hc⟩
  ctl := by obtain ⟨x, hx, hc⟩ := h.ctl; exact ⟨x, hx, hrec _ _ hc⟩
  oneKind := h.oneKind
  valid := h.valid
  checks := fun it hit => ⟨itemOK_of_all m e ln P hrec true it (h.checks it hit).1, (h.checks it hit).2⟩
  returns := fun it hit => ⟨itemOK_of_all m e ln P hrec false it (h.returns it hit).1, (h.returns it hit).2⟩

structure CashLetterAll (m : Model) (P : Kind → Vals → Prop) (cl : CashLetter Vals) : Prop where
  hdr : ∃ h, cl.header = some h ∧ P .cashLetterHeader h
  ctl : ∃ c, cl.control = some c ∧ P .cashLetterControl c
  rnsSome : ∀ r ∈ cl.rns, r.isSome = true
  valid : cashLetterValidate m cl = none
  creditItems : ∀ v ∈ cl.creditItems, P .creditItem v
  credits : ∀ v ∈ cl.credits, P .credit v
  rns : ∀ v ∈ cl.rns.filterMap id, P .rns v
  bundles : ∀ b ∈ cl.bundles, BundleAll P b

theorem cashLetterOK_of_all (m : Model) (e : Enc) (ln : Kind → Vals → Bytes) (P : Kind → Vals → Prop)
    (hrec : ∀ k v, P k v → RecOK m e ln k v) (cl : CashLetter Vals) (h : CashLetterAll m P cl) :
    CashLetterOK m e ln cl where
  hdr := by obtain ⟨x, hx, hc⟩ := h.hdr; exact ⟨x, hx, hrec _ _ hc⟩
  ctl := by obtain ⟨x, hx, hc⟩ := h.ctl; exact ⟨x, hx, hrec _ _ hc⟩
  rnsSome := h.rnsSome
  valid := h.valid
  creditItems := fun v hv => hrec _ _ (h.creditItems v hv)
  credits := fun v hv => hrec _ _ (h.credits v hv)
  rns := fun v hv => hrec _ _ (h.rns v hv)
  bundles := fun b hb => bundleOK_of_all m e ln P hrec b (h.bundles b hb)

/-- every record canonical -/
abbrev CanonItem (m : Model) := ItemAll (RecCanon m)
abbrev CanonBundle (m : Model) := BundleAll (RecCanon m)
abbrev CanonCashLetter (m : Model) := CashLetterAll m (RecCanon m)

theorem cashLetterOK_of_canon (m : Model) (e : Enc) (he : e.ebcdic = false) (hK : ∀ k, KindOK m k = true)
    (cl : CashLetter Vals) (h : CanonCashLetter m cl) : CashLetterOK m e (fun k v => lineOf m k (some v)) cl :=
  cashLetterOK_of_all m e _ (RecCanon m) (fun k v hc => recOK_ascii_all m e he k (hK k) v hc) cl h


/-! ### every record the writer walk emits satisfies the per-record predicate of the containers -/

def RecP (P : Kind → Vals → Prop) (r : Rec) : Prop := P r.1 r.2.1

section
variable (ln : Kind → Vals → Bytes) (P : Kind → Vals → Prop)

theorem recP_map (k : Kind) (l : List Vals) (h : ∀ v ∈ l, P k v) : ∀ r ∈ l.map (mkRec ln k), RecP P r := by
  intro r hr
  obtain ⟨v, hv, rfl⟩ := List.mem_map.1 hr
  exact h v hv

theorem recP_append {a b : List Rec} (ha : ∀ r ∈ a, RecP P r) (hb : ∀ r ∈ b, RecP P r) : ∀ r ∈ a ++ b, RecP P r := by
  intro r hr
  rcases List.mem_append.1 hr with h | h
  · exact ha r h
  · exact hb r h

theorem recP_flatMap {α : Type} (l : List α) (f : α → List Rec) (h : ∀ x ∈ l, ∀ r ∈ f x, RecP P r) :
    ∀ r ∈ l.flatMap f, RecP P r := by
  intro r hr
  obtain ⟨x, hx, hrx⟩ := List.mem_flatMap.1 hr
  exact h x hx r hrx

theorem recP_views (it : Item Vals) (i : Nat) (h1 : ∀ v ∈ it.ivDetail, P .ivDetail v) (h2 : ∀ v ∈ it.ivData, P .ivData v)
    (h3 : ∀ v ∈ it.ivAnalysis, P .ivAnalysis v) : ∀ r ∈ viewRecs ln it i, RecP P r := by
  unfold viewRecs
  exact recP_append P (recP_append P (recP_map ln P _ _ (fun v hv => h1 v (mem_optVals _ _ _ hv)))
    (recP_map ln P _ _ (fun v hv => h2 v (mem_optVals _ _ _ hv)))) (recP_map ln P _ _ (fun v hv => h3 v (mem_optVals _ _ _ hv)))

theorem recP_check (it : Item Vals) (h : ItemAll P true it) : ∀ r ∈ checkRecs ln it, RecP P r := by
  obtain ⟨h1, h2, h3, h4, _, h6, h7, h8⟩ := h
  unfold checkRecs
  refine recP_append P (recP_append P (recP_append P (recP_append P ?_ (recP_map ln P _ _ h2)) (recP_map ln P _ _ h3))
    (recP_map ln P _ _ h4)) (recP_flatMap P _ _ (fun i _ => recP_views ln P it i h6 h7 h8))
  intro r hr
  simp only [List.mem_singleton] at hr
  subst hr; exact h1

theorem recP_return (it : Item Vals) (h : ItemAll P false it) : ∀ r ∈ returnRecs ln it, RecP P r := by
  obtain ⟨h1, h2, h3, h4, h5, h6, h7, h8⟩ := h
  unfold returnRecs
  refine recP_append P (recP_append P (recP_append P (recP_append P (recP_append P ?_ (recP_map ln P _ _ h2)) (recP_map ln P _ _ h3))
    (recP_map ln P _ _ h4)) (recP_map ln P _ _ h5)) (recP_flatMap P _ _ (fun i _ => recP_views ln P it i h6 h7 h8))
  intro r hr
  simp only [List.mem_singleton] at hr
  subst hr; exact h1

theorem recP_bundle (b : Bundle Vals) (h : BundleAll P b) : ∀ r ∈ bundleRecs ln b, RecP P r := by
  obtain ⟨x, hx, hpx⟩ := h.hdr
  obtain ⟨y, hy, hpy⟩ := h.ctl
  unfold bundleRecs
  refine recP_append P (recP_append P (recP_append P (recP_map ln P _ _ ?_)
    (recP_flatMap P _ _ (fun it hit => recP_check ln P it (h.checks it hit).1)))
    (recP_flatMap P _ _ (fun it hit => recP_return ln P it (h.returns it hit).1))) (recP_map ln P _ _ ?_)
  · intro v hv; rw [hx] at hv; simp at hv; subst hv; exact hpx
  · intro v hv; rw [hy] at hv; simp at hv; subst hv; exact hpy

theorem recP_cashLetter (m : Model) (cl : CashLetter Vals) (h : CashLetterAll m P cl) : ∀ r ∈ clRecs ln cl, RecP P r := by
  obtain ⟨x, hx, hpx⟩ := h.hdr
  obtain ⟨y, hy, hpy⟩ := h.ctl
  unfold clRecs
  refine recP_append P (recP_append P (recP_append P (recP_append P (recP_append P (recP_map ln P _ _ ?_)
    (recP_map ln P _ _ h.creditItems)) (recP_map ln P _ _ h.credits))
    (recP_flatMap P _ _ (fun b hb => recP_bundle ln P b (h.bundles b hb)))) (recP_map ln P _ _ h.rns)) (recP_map ln P _ _ ?_)
  · intro v hv; rw [hx] at hv; simp at hv; subst hv; exact hpx
  · intro v hv; rw [hy] at hv; simp at hv; subst hv; exact hpy

end

end Icl.C01
