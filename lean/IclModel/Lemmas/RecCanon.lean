/-
From canonical record values to C01's per-record premise `RecOK` (ASCII renderings, fixed-width
record kinds): the rendered line is a line of its kind, 80 bytes long, and the reader's decoding of it
(layout-driven parse + the record's validation) returns the record.
-/
import IclModel.Lemmas.RoundTrip
import IclModel.Lemmas.Builder
namespace Icl.C01
open Icl Icl.C04

theorem kindOfLine_tag (k : Kind) (rest : Bytes) : kindOfLine (k.tag ++ rest) = some k := by
  cases k <;> simp [kindOfLine, Kind.tag, Kind.all, ebcTag] <;> decide

/-- the first written field is the record type -/
def TypeFirst (ws : List WField) : Bool :=
  match ws with
  | f :: _ => f.conv == .lit && f.src == "recordType" && !f.imageOnly
  | [] => false

theorem render_typeFirst (b64 : Bytes → Option Bytes) (ws : List WField) (v : Vals) (h : TypeFirst ws = true) :
    ∃ rest, render b64 ws true v = v.s "recordType" ++ rest := by
  cases ws with
  | nil => simp [TypeFirst] at h
  | cons f r =>
    simp only [TypeFirst, Bool.and_eq_true, beq_iff_eq, Bool.not_eq_true'] at h
    obtain ⟨⟨hc, hs⟩, hi⟩ := h
    refine ⟨render b64 r true v, ?_⟩
    simp [render, hi, renderField, hc, hs]

/-- a record value of kind `k` that is its own canonical form: the type code is set, every written field
holds a value its column holds as such, nothing is set outside what `Parse()` sets, and the record is valid -/
structure RecCanon (m : Model) (k : Kind) (v : Vals) : Prop where
  typeSet : v.s "recordType" = k.tag
  canon : ∀ f ∈ (m.layout k).write, CanonField f v
  /-- the rendering is text of one byte per character (ASCII) -/
  runes : runeCount (render m.b64 (m.layout k).write true v) = fixedWidth (m.layout k).write
  shaped : replay m.now (m.layout k).setType v (m.layout k).parse (tmpl m k) = v
  valid : m.validateK k v = (none, v)

/-- what `decide` establishes per record kind on the regenerated layout -/
def FixedKind (m : Model) (k : Kind) : Bool :=
  SimpleLayout (m.layout k) && TypeFirst (m.layout k).write && fixedWidth (m.layout k).write == 80 &&
    k != .ivData && k != .cdAddB && k != .rdAddC

/-- **C01's per-record premise from canonical values** (ASCII): the line `String()` renders for a
canonical record is read back by the reader's decoding as that record -/
theorem recOK_ascii (m : Model) (e : Enc) (he : e.ebcdic = false) (k : Kind) (hk : FixedKind m k = true)
    (v : Vals) (hc : RecCanon m k v) : RecOK m e (fun k v => lineOf m k (some v)) k v := by
  simp only [FixedKind, Bool.and_eq_true, beq_iff_eq, bne_iff_ne, ne_eq] at hk
  obtain ⟨⟨⟨⟨⟨hs, htf⟩, h80⟩, hk1⟩, hk2⟩, hk3⟩ := hk
  simp only [SimpleLayout, Bool.and_eq_true] at hs
  obtain ⟨⟨hwf, hfx⟩, hps⟩ := hs
  have ht : TypeSet v := by
    unfold TypeSet; rw [hc.typeSet]; cases k <;> rfl
  obtain ⟨rest, hr⟩ := render_typeFirst m.b64 (m.layout k).write v htf
  have hkind : kindOfLine (lineOf m k (some v)) = some k := by
    simp only [lineOf, hr, hc.typeSet]; exact kindOfLine_tag k rest
  have hlen : (lineOf m k (some v)).length = 80 := by
    simp only [lineOf]; rw [render_length_fixed m.b64 _ true v hwf hfx ht]; exact h80
  refine ⟨hkind, ?_, ?_⟩
  · have : minLen m e (lineOf m k (some v)) = 80 := by
      unfold minLen; rw [hkind]; cases k <;> simp_all
    show minLen m e (lineOf m k (some v)) ≤ (lineOf m k (some v)).length
    rw [this, hlen]; exact Nat.le_refl _
  · have hp := parse_render m.b64 m.now (m.layout k).setType (m.layout k).write v hwf hfx ht hc.canon hc.runes
      (m.layout k).parse [] (tmpl m k) hps
    rw [hc.shaped] at hp
    have hpv : parseValidate m k id (lineOf m k (some v)) (tmpl m k) = .ok v := by
      unfold parseValidate RecLayout.parseRec
      simp only [lineOf]
      rw [hp]
      simp only [hc.valid]
    show recParse m e k (lineOf m k (some v)) (tmpl m k) = .ok v
    cases k <;> simp_all [recParse, ibm1047]

end Icl.C01
