/-
The tree builder (`pushRec`) run over the record sequence the writer walk emits for a well-formed
tree rebuilds that tree: items, bundles, cash letters.
-/
import IclModel.Lemmas.Runs
namespace Icl.C01
open Icl Icl.C04

section
variable (m : Model) (e : Enc) (ln : Kind → Vals → Bytes)

/-- the line `ln k v` is a line of kind `k`, long enough, and decodes to `v` -/
def RecOK (k : Kind) (v : Vals) : Prop :=
  kindOfLine (ln k v) = some k ∧ minLen m e (ln k v) ≤ (ln k v).length ∧ recParse m e k (ln k v) (tmpl m k) = .ok v

def mkRec (k : Kind) (v : Vals) : Rec := (k, v, ln k v)

/-- records appended one by one to a member of the last check item -/
theorem runs_lastCheck (k : Kind) (app : Vals → Item Vals → Item Vals)
    (hpush : ∀ c v, coreHasChecks c = true → pushRec m c k v = some (lastCheckUpd c (app v)))
    (hv0 : ∀ c, v0For m c k = tmpl m k)
    (cls : List (CashLetter Vals)) (cur : CashLetter Vals) (b : Bundle Vals) (pre : List (Item Vals)) :
    ∀ (vs : List Vals) (p : Item Vals), (∀ v ∈ vs, RecOK m e ln k v) →
    Runs m e ⟨cls, cur, some { b with checks := pre ++ [p] }⟩ (vs.map (mkRec ln k))
      ⟨cls, cur, some { b with checks := pre ++ [vs.foldl (fun it v => app v it) p] }⟩
  | [], p, _ => Runs.nil _
  | v :: vs, p, hok => by
    have hv := hok v (by simp)
    have hc : coreHasChecks ⟨cls, cur, some { b with checks := pre ++ [p] }⟩ = true := by simp [coreHasChecks]
    refine Runs.cons _ ⟨cls, cur, some { b with checks := pre ++ [app v p] }⟩ _ k v (ln k v) _ hv.1 hv.2.1
      (by rw [hv0]; exact hv.2.2) ?_ ?_
    · rw [hpush _ v hc]
      simp [lastCheckUpd, modifyLast_concat]
    · exact runs_lastCheck k app hpush hv0 cls cur b pre vs (app v p) (fun x hx => hok x (by simp [hx]))

/-- records appended one by one to a member of the last return item -/
theorem runs_lastReturn (k : Kind) (app : Vals → Item Vals → Item Vals)
    (hpush : ∀ c v, coreHasChecks c = false → coreHasReturns c = true → pushRec m c k v = some (lastReturnUpd c (app v)))
    (hv0 : ∀ c, v0For m c k = tmpl m k)
    (cls : List (CashLetter Vals)) (cur : CashLetter Vals) (b : Bundle Vals) (hb : b.checks = []) (pre : List (Item Vals)) :
    ∀ (vs : List Vals) (p : Item Vals), (∀ v ∈ vs, RecOK m e ln k v) →
    Runs m e ⟨cls, cur, some { b with returns := pre ++ [p] }⟩ (vs.map (mkRec ln k))
      ⟨cls, cur, some { b with returns := pre ++ [vs.foldl (fun it v => app v it) p] }⟩
  | [], p, _ => Runs.nil _
  | v :: vs, p, hok => by
    have hv := hok v (by simp)
    have hc : coreHasChecks ⟨cls, cur, some { b with returns := pre ++ [p] }⟩ = false := by simp [coreHasChecks, hb]
    have hr : coreHasReturns ⟨cls, cur, some { b with returns := pre ++ [p] }⟩ = true := by simp [coreHasReturns]
    refine Runs.cons _ ⟨cls, cur, some { b with returns := pre ++ [app v p] }⟩ _ k v (ln k v) _ hv.1 hv.2.1
      (by rw [hv0]; exact hv.2.2) ?_ ?_
    · rw [hpush _ v hc hr]
      simp [lastReturnUpd, modifyLast_concat]
    · exact runs_lastReturn k app hpush hv0 cls cur b hb pre vs (app v p) (fun x hx => hok x (by simp [hx]))

end

/-! ### folding appends into one member -/

theorem fold_addA (vs : List Vals) (p : Item Vals) :
    vs.foldl (fun it v => { it with addA := it.addA ++ [v] }) p = { p with addA := p.addA ++ vs } := by
  induction vs generalizing p with
  | nil => simp
  | cons v vs ih => simp [ih, List.append_assoc]
theorem fold_addB (vs : List Vals) (p : Item Vals) :
    vs.foldl (fun it v => { it with addB := it.addB ++ [v] }) p = { p with addB := p.addB ++ vs } := by
  induction vs generalizing p with
  | nil => simp
  | cons v vs ih => simp [ih, List.append_assoc]
theorem fold_addC (vs : List Vals) (p : Item Vals) :
    vs.foldl (fun it v => { it with addC := it.addC ++ [v] }) p = { p with addC := p.addC ++ vs } := by
  induction vs generalizing p with
  | nil => simp
  | cons v vs ih => simp [ih, List.append_assoc]
theorem fold_addD (vs : List Vals) (p : Item Vals) :
    vs.foldl (fun it v => { it with addD := it.addD ++ [v] }) p = { p with addD := p.addD ++ vs } := by
  induction vs generalizing p with
  | nil => simp
  | cons v vs ih => simp [ih, List.append_assoc]

theorem fold_ivDetail (vs : List Vals) (p : Item Vals) :
    vs.foldl (fun it v => { it with ivDetail := it.ivDetail ++ [v] }) p = { p with ivDetail := p.ivDetail ++ vs } := by
  induction vs generalizing p with
  | nil => simp
  | cons v vs ih => simp [ih, List.append_assoc]
theorem fold_ivData (vs : List Vals) (p : Item Vals) :
    vs.foldl (fun it v => { it with ivData := it.ivData ++ [v] }) p = { p with ivData := p.ivData ++ vs } := by
  induction vs generalizing p with
  | nil => simp
  | cons v vs ih => simp [ih, List.append_assoc]
theorem fold_ivAnalysis (vs : List Vals) (p : Item Vals) :
    vs.foldl (fun it v => { it with ivAnalysis := it.ivAnalysis ++ [v] }) p = { p with ivAnalysis := p.ivAnalysis ++ vs } := by
  induction vs generalizing p with
  | nil => simp
  | cons v vs ih => simp [ih, List.append_assoc]

/-! ### the record sequence of a tree (the writer walk with the lines attached) -/

section
variable (ln : Kind → Vals → Bytes)

/-- the i-th element, if any, as a list -/
def optVals (l : List Vals) (i : Nat) : List Vals := (l[i]?).toList

def viewRecs (it : Item Vals) (i : Nat) : List Rec :=
  (optVals it.ivDetail i).map (mkRec ln .ivDetail) ++ (optVals it.ivData i).map (mkRec ln .ivData) ++
  (optVals it.ivAnalysis i).map (mkRec ln .ivAnalysis)

def checkRecs (it : Item Vals) : List Rec :=
  [mkRec ln .checkDetail it.detail] ++ it.addA.map (mkRec ln .cdAddA) ++ it.addB.map (mkRec ln .cdAddB) ++
  it.addC.map (mkRec ln .cdAddC) ++ (List.range it.ivDetail.length).flatMap (viewRecs ln it)

def returnRecs (it : Item Vals) : List Rec :=
  [mkRec ln .returnDetail it.detail] ++ it.addA.map (mkRec ln .rdAddA) ++ it.addB.map (mkRec ln .rdAddB) ++
  it.addC.map (mkRec ln .rdAddC) ++ it.addD.map (mkRec ln .rdAddD) ++
  (List.range it.ivDetail.length).flatMap (viewRecs ln it)

end

theorem take_succ_optVals (l : List Vals) (i : Nat) : l.take (i + 1) = l.take i ++ optVals l i := by
  simp [optVals, List.take_add_one]

section
variable (m : Model) (e : Enc) (ln : Kind → Vals → Bytes)

/-- every record of an item satisfies `RecOK` (flavour: check / return) -/
def ItemOK (isCheck : Bool) (it : Item Vals) : Prop :=
  RecOK m e ln (if isCheck then .checkDetail else .returnDetail) it.detail ∧
  (∀ v ∈ it.addA, RecOK m e ln (if isCheck then .cdAddA else .rdAddA) v) ∧
  (∀ v ∈ it.addB, RecOK m e ln (if isCheck then .cdAddB else .rdAddB) v) ∧
  (∀ v ∈ it.addC, RecOK m e ln (if isCheck then .cdAddC else .rdAddC) v) ∧
  (∀ v ∈ it.addD, RecOK m e ln .rdAddD v) ∧
  (∀ v ∈ it.ivDetail, RecOK m e ln .ivDetail v) ∧ (∀ v ∈ it.ivData, RecOK m e ln .ivData v) ∧
  (∀ v ∈ it.ivAnalysis, RecOK m e ln .ivAnalysis v)

theorem mem_optVals (l : List Vals) (i : Nat) (v : Vals) (h : v ∈ optVals l i) : v ∈ l := by
  unfold optVals at h
  cases hx : l[i]? with
  | none => simp [hx] at h
  | some x =>
    simp [hx] at h
    subst h
    exact List.mem_of_getElem? hx

/-- the image views of the last check item, index by index -/
theorem runs_views_check (cls : List (CashLetter Vals)) (cur : CashLetter Vals) (b : Bundle Vals) (pre : List (Item Vals))
    (it : Item Vals) (hok : ItemOK m e ln true it) :
    ∀ n, Runs m e
      ⟨cls, cur, some { b with checks := pre ++ [{ it with ivDetail := [], ivData := [], ivAnalysis := [] }] }⟩
      ((List.range n).flatMap (viewRecs ln it))
      ⟨cls, cur, some { b with checks := pre ++ [{ it with ivDetail := it.ivDetail.take n, ivData := it.ivData.take n, ivAnalysis := it.ivAnalysis.take n }] }⟩
  | 0 => by simpa using Runs.nil _
  | n + 1 => by
    rw [List.range_succ, List.flatMap_append]
    refine Runs.append (runs_views_check cls cur b pre it hok n) ?_
    simp only [List.flatMap_cons, List.flatMap_nil, List.append_nil, viewRecs]
    have h1 := runs_lastCheck m e ln .ivDetail (fun v it => { it with ivDetail := it.ivDetail ++ [v] })
      (by intro c v hc; simp [pushRec, hc]) (by intro c; rfl) cls cur b pre (optVals it.ivDetail n)
      { it with ivDetail := it.ivDetail.take n, ivData := it.ivData.take n, ivAnalysis := it.ivAnalysis.take n }
      (fun v hv => hok.2.2.2.2.2.1 v (mem_optVals _ _ _ hv))
    have h2 := runs_lastCheck m e ln .ivData (fun v it => { it with ivData := it.ivData ++ [v] })
      (by intro c v hc; simp [pushRec, hc]) (by intro c; rfl) cls cur b pre (optVals it.ivData n)
      { it with ivDetail := it.ivDetail.take (n + 1), ivData := it.ivData.take n, ivAnalysis := it.ivAnalysis.take n }
      (fun v hv => hok.2.2.2.2.2.2.1 v (mem_optVals _ _ _ hv))
    have h3 := runs_lastCheck m e ln .ivAnalysis (fun v it => { it with ivAnalysis := it.ivAnalysis ++ [v] })
      (by intro c v hc; simp [pushRec, hc]) (by intro c; rfl) cls cur b pre (optVals it.ivAnalysis n)
      { it with ivDetail := it.ivDetail.take (n + 1), ivData := it.ivData.take (n + 1), ivAnalysis := it.ivAnalysis.take n }
      (fun v hv => hok.2.2.2.2.2.2.2 v (mem_optVals _ _ _ hv))
    rw [fold_ivDetail] at h1
    rw [fold_ivData] at h2
    rw [fold_ivAnalysis] at h3
    simp only [← take_succ_optVals] at h1 h2 h3
    exact Runs.append (Runs.append h1 h2) h3

/-- the image views of the last return item -/
theorem runs_views_return (cls : List (CashLetter Vals)) (cur : CashLetter Vals) (b : Bundle Vals) (hb : b.checks = [])
    (pre : List (Item Vals)) (it : Item Vals) (hok : ItemOK m e ln false it) :
    ∀ n, Runs m e
      ⟨cls, cur, some { b with returns := pre ++ [{ it with ivDetail := [], ivData := [], ivAnalysis := [] }] }⟩
      ((List.range n).flatMap (viewRecs ln it))
      ⟨cls, cur, some { b with returns := pre ++ [{ it with ivDetail := it.ivDetail.take n, ivData := it.ivData.take n, ivAnalysis := it.ivAnalysis.take n }] }⟩
  | 0 => by simpa using Runs.nil _
  | n + 1 => by
    rw [List.range_succ, List.flatMap_append]
    refine Runs.append (runs_views_return cls cur b hb pre it hok n) ?_
    simp only [List.flatMap_cons, List.flatMap_nil, List.append_nil, viewRecs]
    have h1 := runs_lastReturn m e ln .ivDetail (fun v it => { it with ivDetail := it.ivDetail ++ [v] })
      (by intro c v hc hr; simp [pushRec, hc, hr]) (by intro c; rfl) cls cur b hb pre (optVals it.ivDetail n)
      { it with ivDetail := it.ivDetail.take n, ivData := it.ivData.take n, ivAnalysis := it.ivAnalysis.take n }
      (fun v hv => hok.2.2.2.2.2.1 v (mem_optVals _ _ _ hv))
    have h2 := runs_lastReturn m e ln .ivData (fun v it => { it with ivData := it.ivData ++ [v] })
      (by intro c v hc hr; simp [pushRec, hc, hr]) (by intro c; rfl) cls cur b hb pre (optVals it.ivData n)
      { it with ivDetail := it.ivDetail.take (n + 1), ivData := it.ivData.take n, ivAnalysis := it.ivAnalysis.take n }
      (fun v hv => hok.2.2.2.2.2.2.1 v (mem_optVals _ _ _ hv))
    have h3 := runs_lastReturn m e ln .ivAnalysis (fun v it => { it with ivAnalysis := it.ivAnalysis ++ [v] })
      (by intro c v hc hr; simp [pushRec, hc, hr]) (by intro c; rfl) cls cur b hb pre (optVals it.ivAnalysis n)
      { it with ivDetail := it.ivDetail.take (n + 1), ivData := it.ivData.take (n + 1), ivAnalysis := it.ivAnalysis.take n }
      (fun v hv => hok.2.2.2.2.2.2.2 v (mem_optVals _ _ _ hv))
    rw [fold_ivDetail] at h1
    rw [fold_ivData] at h2
    rw [fold_ivAnalysis] at h3
    simp only [← take_succ_optVals] at h1 h2 h3
    exact Runs.append (Runs.append h1 h2) h3

/-- a whole check item appended to the open bundle -/
theorem runs_check (cls : List (CashLetter Vals)) (cur : CashLetter Vals) (b : Bundle Vals) (it : Item Vals)
    (hh : b.header.isSome = true) (hr : b.returns = []) (hok : ItemOK m e ln true it) (hD : it.addD = [])
    (hd : it.ivData.length ≤ it.ivDetail.length) (ha : it.ivAnalysis.length ≤ it.ivDetail.length) :
    Runs m e ⟨cls, cur, some b⟩ (checkRecs ln it) ⟨cls, cur, some { b with checks := b.checks ++ [it] }⟩ := by
  unfold checkRecs
  have h0 : Runs m e ⟨cls, cur, some b⟩ [mkRec ln .checkDetail it.detail]
      ⟨cls, cur, some { b with checks := b.checks ++ [{ detail := it.detail }] }⟩ := by
    have hv := hok.1
    simp only [if_true] at hv
    refine Runs.single hv.1 hv.2.1 (by exact hv.2.2) ?_
    have : b.header.isNone = false := by cases hx : b.header <;> simp_all
    simp [pushRec, this, hr]
  have h1 := runs_lastCheck m e ln .cdAddA (fun v it => { it with addA := it.addA ++ [v] })
    (by intro c v hc; simp [pushRec, hc]) (by intro c; rfl) cls cur b b.checks it.addA { detail := it.detail }
    (by simpa using hok.2.1)
  have h2 := runs_lastCheck m e ln .cdAddB (fun v it => { it with addB := it.addB ++ [v] })
    (by intro c v hc; simp [pushRec, hc]) (by intro c; rfl) cls cur b b.checks it.addB { detail := it.detail, addA := it.addA }
    (by simpa using hok.2.2.1)
  have h3 := runs_lastCheck m e ln .cdAddC (fun v it => { it with addC := it.addC ++ [v] })
    (by intro c v hc; simp [pushRec, hc]) (by intro c; rfl) cls cur b b.checks it.addC
    { detail := it.detail, addA := it.addA, addB := it.addB } (by simpa using hok.2.2.2.1)
  rw [fold_addA] at h1
  rw [fold_addB] at h2
  rw [fold_addC] at h3
  simp only [List.nil_append] at h1 h2 h3
  have h4 := runs_views_check m e ln cls cur b b.checks it hok it.ivDetail.length
  have e1 : ({ detail := it.detail, addA := it.addA, addB := it.addB, addC := it.addC } : Item Vals)
      = { it with ivDetail := [], ivData := [], ivAnalysis := [] } := by
    cases it; simp_all
  have e2 : ({ it with ivDetail := it.ivDetail.take it.ivDetail.length, ivData := it.ivData.take it.ivDetail.length, ivAnalysis := it.ivAnalysis.take it.ivDetail.length } : Item Vals) = it := by
    cases it; simp_all [List.take_of_length_le]
  rw [e1] at h3
  rw [e2] at h4
  exact Runs.append (Runs.append (Runs.append (Runs.append h0 h1) h2) h3) h4

/-- a whole return item appended to the open bundle -/
theorem runs_return (cls : List (CashLetter Vals)) (cur : CashLetter Vals) (b : Bundle Vals) (it : Item Vals)
    (hh : b.header.isSome = true) (hc : b.checks = []) (hok : ItemOK m e ln false it)
    (hd : it.ivData.length ≤ it.ivDetail.length) (ha : it.ivAnalysis.length ≤ it.ivDetail.length) :
    Runs m e ⟨cls, cur, some b⟩ (returnRecs ln it) ⟨cls, cur, some { b with returns := b.returns ++ [it] }⟩ := by
  unfold returnRecs
  have h0 : Runs m e ⟨cls, cur, some b⟩ [mkRec ln .returnDetail it.detail]
      ⟨cls, cur, some { b with returns := b.returns ++ [{ detail := it.detail }] }⟩ := by
    have hv := hok.1
    simp only [Bool.false_eq_true, if_false] at hv
    refine Runs.single hv.1 hv.2.1 (by exact hv.2.2) ?_
    have : b.header.isNone = false := by cases hx : b.header <;> simp_all
    simp [pushRec, this, hc]
  have h1 := runs_lastReturn m e ln .rdAddA (fun v it => { it with addA := it.addA ++ [v] })
    (by intro c v _ hr; simp [pushRec, hr]) (by intro c; rfl) cls cur b hc b.returns it.addA { detail := it.detail }
    (by simpa using hok.2.1)
  have h2 := runs_lastReturn m e ln .rdAddB (fun v it => { it with addB := it.addB ++ [v] })
    (by intro c v _ hr; simp [pushRec, hr]) (by intro c; rfl) cls cur b hc b.returns it.addB { detail := it.detail, addA := it.addA }
    (by simpa using hok.2.2.1)
  have h3 := runs_lastReturn m e ln .rdAddC (fun v it => { it with addC := it.addC ++ [v] })
    (by intro c v _ hr; simp [pushRec, hr]) (by intro c; rfl) cls cur b hc b.returns it.addC
    { detail := it.detail, addA := it.addA, addB := it.addB } (by simpa using hok.2.2.2.1)
  have h3d := runs_lastReturn m e ln .rdAddD (fun v it => { it with addD := it.addD ++ [v] })
    (by intro c v _ hr; simp [pushRec, hr]) (by intro c; rfl) cls cur b hc b.returns it.addD
    { detail := it.detail, addA := it.addA, addB := it.addB, addC := it.addC } (by simpa using hok.2.2.2.2.1)
  rw [fold_addA] at h1
  rw [fold_addB] at h2
  rw [fold_addC] at h3
  rw [fold_addD] at h3d
  simp only [List.nil_append] at h1 h2 h3 h3d
  have h4 := runs_views_return m e ln cls cur b hc b.returns it hok it.ivDetail.length
  have e1 : ({ detail := it.detail, addA := it.addA, addB := it.addB, addC := it.addC, addD := it.addD } : Item Vals)
      = { it with ivDetail := [], ivData := [], ivAnalysis := [] } := by
    cases it; simp_all
  have e2 : ({ it with ivDetail := it.ivDetail.take it.ivDetail.length, ivData := it.ivData.take it.ivDetail.length, ivAnalysis := it.ivAnalysis.take it.ivDetail.length } : Item Vals) = it := by
    cases it; simp_all [List.take_of_length_le]
  rw [e1] at h3d
  rw [e2] at h4
  exact Runs.append (Runs.append (Runs.append (Runs.append (Runs.append h0 h1) h2) h3) h3d) h4

/-! ### bundles -/

def bundleRecs (b : Bundle Vals) : List Rec :=
  b.header.toList.map (mkRec ln .bundleHeader) ++ b.checks.flatMap (checkRecs ln) ++
  b.returns.flatMap (returnRecs ln) ++ b.control.toList.map (mkRec ln .bundleControl)

/-- well-formedness of an item for the writer walk to emit all its records -/
def ItemWF (isCheck : Bool) (it : Item Vals) : Prop :=
  (isCheck = true → it.addD = []) ∧ it.ivData.length ≤ it.ivDetail.length ∧ it.ivAnalysis.length ≤ it.ivDetail.length

theorem runs_checks (cls : List (CashLetter Vals)) (cur : CashLetter Vals) :
    ∀ (its : List (Item Vals)) (b : Bundle Vals), b.header.isSome = true → b.returns = [] →
      (∀ it ∈ its, ItemOK m e ln true it ∧ ItemWF true it) →
      Runs m e ⟨cls, cur, some b⟩ (its.flatMap (checkRecs ln)) ⟨cls, cur, some { b with checks := b.checks ++ its }⟩
  | [], b, _, _, _ => by simpa using Runs.nil _
  | it :: its, b, hh, hr, hok => by
    have h1 := hok it (by simp)
    have r1 := runs_check m e ln cls cur b it hh hr h1.1 (h1.2.1 rfl) h1.2.2.1 h1.2.2.2
    have r2 := runs_checks cls cur its { b with checks := b.checks ++ [it] } hh hr (fun x hx => hok x (by simp [hx]))
    simp only [List.flatMap_cons]
    have := Runs.append r1 r2
    simpa [List.append_assoc] using this

theorem runs_returns (cls : List (CashLetter Vals)) (cur : CashLetter Vals) :
    ∀ (its : List (Item Vals)) (b : Bundle Vals), b.header.isSome = true → b.checks = [] →
      (∀ it ∈ its, ItemOK m e ln false it ∧ ItemWF false it) →
      Runs m e ⟨cls, cur, some b⟩ (its.flatMap (returnRecs ln)) ⟨cls, cur, some { b with returns := b.returns ++ its }⟩
  | [], b, _, _, _ => by simpa using Runs.nil _
  | it :: its, b, hh, hc, hok => by
    have h1 := hok it (by simp)
    have r1 := runs_return m e ln cls cur b it hh hc h1.1 h1.2.2.1 h1.2.2.2
    have r2 := runs_returns cls cur its { b with returns := b.returns ++ [it] } hh hc (fun x hx => hok x (by simp [hx]))
    simp only [List.flatMap_cons]
    have := Runs.append r1 r2
    simpa [List.append_assoc] using this

/-- a well-formed bundle: header and control present, one kind of items, accepted by Bundle.Validate,
every record decodable -/
structure BundleOK (b : Bundle Vals) : Prop where
  hdr : ∃ h, b.header = some h ∧ RecOK m e ln .bundleHeader h
  ctl : ∃ c, b.control = some c ∧ RecOK m e ln .bundleControl c
  oneKind : b.checks = [] ∨ b.returns = []
  valid : bundleValidate b = none
  checks : ∀ it ∈ b.checks, ItemOK m e ln true it ∧ ItemWF true it
  returns : ∀ it ∈ b.returns, ItemOK m e ln false it ∧ ItemWF false it

/-- a whole bundle appended to the open cash letter -/
theorem runs_bundle (cls : List (CashLetter Vals)) (cur : CashLetter Vals) (cb0 : Option (Bundle Vals)) (b : Bundle Vals)
    (hcur : cur.header.isSome = true) (hclosed : openB ⟨cls, cur, cb0⟩ = false) (hb : BundleOK m e ln b) :
    Runs m e ⟨cls, cur, cb0⟩ (bundleRecs ln b)
      ⟨cls, { cur with bundles := cur.bundles ++ [b] }, some { header := none, control := none }⟩ := by
  obtain ⟨h, hh, hH⟩ := hb.hdr
  obtain ⟨c, hc, hC⟩ := hb.ctl
  unfold bundleRecs
  simp only [hh, hc, Option.toList_some, List.map_cons, List.map_nil]
  -- header
  have r0 : Runs m e ⟨cls, cur, cb0⟩ [mkRec ln .bundleHeader h]
      ⟨cls, cur, some { header := some h, control := some (tmpl m .bundleControl) }⟩ := by
    refine Runs.single hH.1 hH.2.1 (by exact hH.2.2) ?_
    have : cur.header.isNone = false := by cases hx : cur.header <;> simp_all
    simp [pushRec, hclosed, this]
  -- items
  have r1 := runs_checks m e ln cls cur b.checks { header := some h, control := some (tmpl m .bundleControl) } rfl rfl hb.checks
  simp only [List.nil_append] at r1
  have r2 : Runs m e ⟨cls, cur, some { header := some h, checks := b.checks, control := some (tmpl m .bundleControl) }⟩
      (b.returns.flatMap (returnRecs ln))
      ⟨cls, cur, some { header := some h, checks := b.checks, returns := b.returns, control := some (tmpl m .bundleControl) }⟩ := by
    rcases hb.oneKind with hk | hk
    · have := runs_returns m e ln cls cur b.returns { header := some h, checks := b.checks, control := some (tmpl m .bundleControl) }
        rfl hk hb.returns
      simpa using this
    · rw [hk]; simpa using Runs.nil _
  -- control
  have r3 : Runs m e ⟨cls, cur, some { header := some h, checks := b.checks, returns := b.returns, control := some (tmpl m .bundleControl) }⟩
      [mkRec ln .bundleControl c]
      ⟨cls, { cur with bundles := cur.bundles ++ [b] }, some { header := none, control := none }⟩ := by
    refine Runs.single hC.1 hC.2.1 (by exact hC.2.2) ?_
    have hbeq : ({ header := some h, checks := b.checks, returns := b.returns, control := some c } : Bundle Vals) = b := by
      cases b; simp_all
    simp [pushRec, hbeq, hb.valid]
  have := Runs.append (Runs.append (Runs.append r0 r1) r2) r3
  simpa [List.append_assoc] using this

/-! ### cash letters -/

def clRecs (cl : CashLetter Vals) : List Rec :=
  cl.header.toList.map (mkRec ln .cashLetterHeader) ++ cl.creditItems.map (mkRec ln .creditItem) ++
  cl.credits.map (mkRec ln .credit) ++ cl.bundles.flatMap (bundleRecs ln) ++
  (cl.rns.filterMap id).map (mkRec ln .rns) ++ cl.control.toList.map (mkRec ln .cashLetterControl)

structure CashLetterOK (cl : CashLetter Vals) : Prop where
  hdr : ∃ h, cl.header = some h ∧ RecOK m e ln .cashLetterHeader h
  ctl : ∃ c, cl.control = some c ∧ RecOK m e ln .cashLetterControl c
  rnsSome : ∀ r ∈ cl.rns, r.isSome = true
  valid : cashLetterValidate m cl = none
  creditItems : ∀ v ∈ cl.creditItems, RecOK m e ln .creditItem v
  credits : ∀ v ∈ cl.credits, RecOK m e ln .credit v
  rns : ∀ v ∈ cl.rns.filterMap id, RecOK m e ln .rns v
  bundles : ∀ b ∈ cl.bundles, BundleOK m e ln b

theorem runs_creditItems (cls : List (CashLetter Vals)) (cb : Option (Bundle Vals)) :
    ∀ (vs : List Vals) (cur : CashLetter Vals), cur.header.isSome = true → (∀ v ∈ vs, RecOK m e ln .creditItem v) →
      Runs m e ⟨cls, cur, cb⟩ (vs.map (mkRec ln .creditItem)) ⟨cls, { cur with creditItems := cur.creditItems ++ vs }, cb⟩
  | [], cur, _, _ => by simpa using Runs.nil _
  | v :: vs, cur, hh, hok => by
    have hv := hok v (by simp)
    have hn : cur.header.isNone = false := by cases hx : cur.header <;> simp_all
    refine Runs.cons _ ⟨cls, { cur with creditItems := cur.creditItems ++ [v] }, cb⟩ _ _ v _ _ hv.1 hv.2.1 (by exact hv.2.2)
      (by simp [pushRec, hn]) ?_
    have := runs_creditItems cls cb vs { cur with creditItems := cur.creditItems ++ [v] } hh (fun x hx => hok x (by simp [hx]))
    simpa [List.append_assoc] using this

theorem runs_credits (cls : List (CashLetter Vals)) (cb : Option (Bundle Vals)) :
    ∀ (vs : List Vals) (cur : CashLetter Vals), cur.header.isSome = true → (∀ v ∈ vs, RecOK m e ln .credit v) →
      Runs m e ⟨cls, cur, cb⟩ (vs.map (mkRec ln .credit)) ⟨cls, { cur with credits := cur.credits ++ vs }, cb⟩
  | [], cur, _, _ => by simpa using Runs.nil _
  | v :: vs, cur, hh, hok => by
    have hv := hok v (by simp)
    have hn : cur.header.isNone = false := by cases hx : cur.header <;> simp_all
    refine Runs.cons _ ⟨cls, { cur with credits := cur.credits ++ [v] }, cb⟩ _ _ v _ _ hv.1 hv.2.1 (by exact hv.2.2)
      (by simp [pushRec, hn]) ?_
    have := runs_credits cls cb vs { cur with credits := cur.credits ++ [v] } hh (fun x hx => hok x (by simp [hx]))
    simpa [List.append_assoc] using this

theorem runs_rns (cls : List (CashLetter Vals)) (cb : Option (Bundle Vals)) :
    ∀ (vs : List Vals) (cur : CashLetter Vals), cur.header.isSome = true → (∀ v ∈ vs, RecOK m e ln .rns v) →
      Runs m e ⟨cls, cur, cb⟩ (vs.map (mkRec ln .rns)) ⟨cls, { cur with rns := cur.rns ++ vs.map some }, cb⟩
  | [], cur, _, _ => by simpa using Runs.nil _
  | v :: vs, cur, hh, hok => by
    have hv := hok v (by simp)
    have hn : cur.header.isNone = false := by cases hx : cur.header <;> simp_all
    refine Runs.cons _ ⟨cls, { cur with rns := cur.rns ++ [some v] }, cb⟩ _ _ v _ _ hv.1 hv.2.1 (by exact hv.2.2)
      (by simp [pushRec, hn]) ?_
    have := runs_rns cls cb vs { cur with rns := cur.rns ++ [some v] } hh (fun x hx => hok x (by simp [hx]))
    simpa [List.append_assoc] using this

theorem runs_bundles (cls : List (CashLetter Vals)) :
    ∀ (bs : List (Bundle Vals)) (cur : CashLetter Vals) (cb0 : Option (Bundle Vals)), cur.header.isSome = true →
      openB ⟨cls, cur, cb0⟩ = false → (∀ b ∈ bs, BundleOK m e ln b) →
      ∃ cb1, openB ⟨cls, { cur with bundles := cur.bundles ++ bs }, cb1⟩ = false ∧
        Runs m e ⟨cls, cur, cb0⟩ (bs.flatMap (bundleRecs ln)) ⟨cls, { cur with bundles := cur.bundles ++ bs }, cb1⟩
  | [], cur, cb0, _, hcl, _ => ⟨cb0, by simpa using hcl, by simpa using Runs.nil _⟩
  | b :: bs, cur, cb0, hh, hcl, hok => by
    have r1 := runs_bundle m e ln cls cur cb0 b hh hcl (hok b (by simp))
    obtain ⟨cb1, hc1, r2⟩ := runs_bundles cls bs { cur with bundles := cur.bundles ++ [b] } (some { header := none, control := none })
      hh (by simp [openB]) (fun x hx => hok x (by simp [hx]))
    refine ⟨cb1, by simpa [List.append_assoc] using hc1, ?_⟩
    simp only [List.flatMap_cons]
    have := Runs.append r1 r2
    simpa [List.append_assoc] using this

theorem filterMap_id_map_some (l : List (Option Vals)) (h : ∀ r ∈ l, r.isSome = true) : (l.filterMap id).map some = l := by
  induction l with
  | nil => rfl
  | cons r l ih =>
    cases r with
    | none => simp at h
    | some v => simp [ih (fun x hx => h x (by simp [hx]))]

/-- a whole cash letter appended to the file -/
theorem runs_cashLetter (cls : List (CashLetter Vals)) (cur0 : CashLetter Vals) (cb0 : Option (Bundle Vals)) (cl : CashLetter Vals)
    (h0 : cur0.header.isSome = false) (hcl : CashLetterOK m e ln cl) :
    Runs m e ⟨cls, cur0, cb0⟩ (clRecs ln cl) ⟨cls ++ [cl], { header := none, control := none }, none⟩ := by
  obtain ⟨h, hh, hH⟩ := hcl.hdr
  obtain ⟨c, hc, hC⟩ := hcl.ctl
  unfold clRecs
  simp only [hh, hc, Option.toList_some, List.map_cons, List.map_nil]
  have r0 : Runs m e ⟨cls, cur0, cb0⟩ [mkRec ln .cashLetterHeader h]
      ⟨cls, { header := some h, control := some (tmpl m .cashLetterControl) }, none⟩ := by
    refine Runs.single hH.1 hH.2.1 (by exact hH.2.2) ?_
    simp [pushRec, h0]
  have r1 := runs_creditItems m e ln cls none cl.creditItems { header := some h, control := some (tmpl m .cashLetterControl) } rfl hcl.creditItems
  have r2 := runs_credits m e ln cls none cl.credits
    { header := some h, creditItems := cl.creditItems, control := some (tmpl m .cashLetterControl) } rfl hcl.credits
  obtain ⟨cb1, hc1, r3⟩ := runs_bundles m e ln cls cl.bundles
    { header := some h, credits := cl.credits, creditItems := cl.creditItems, control := some (tmpl m .cashLetterControl) } none
    rfl (by simp [openB]) hcl.bundles
  have r4 := runs_rns m e ln cls cb1 (cl.rns.filterMap id)
    { header := some h, bundles := cl.bundles, credits := cl.credits, creditItems := cl.creditItems, control := some (tmpl m .cashLetterControl) }
    rfl hcl.rns
  simp only [List.nil_append] at r1 r2 r3 r4 hc1
  rw [filterMap_id_map_some cl.rns hcl.rnsSome] at r4
  have r5 : Runs m e ⟨cls, { header := some h, bundles := cl.bundles, credits := cl.credits, creditItems := cl.creditItems, rns := cl.rns, control := some (tmpl m .cashLetterControl) }, cb1⟩
      [mkRec ln .cashLetterControl c] ⟨cls ++ [cl], { header := none, control := none }, none⟩ := by
    refine Runs.single hC.1 hC.2.1 (by exact hC.2.2) ?_
    have heq : ({ header := some h, bundles := cl.bundles, credits := cl.credits, creditItems := cl.creditItems, rns := cl.rns, control := some c } : CashLetter Vals) = cl := by
      cases cl; simp_all
    have hob : openB ⟨cls, { header := some h, bundles := cl.bundles, credits := cl.credits, creditItems := cl.creditItems, rns := cl.rns, control := some (tmpl m .cashLetterControl) }, cb1⟩ = false := by
      simpa [openB] using hc1
    simp [pushRec, hob, heq, hcl.valid]
  have := Runs.append (Runs.append (Runs.append (Runs.append (Runs.append r0 r1) r2) r3) r4) r5
  simpa [List.append_assoc] using this

theorem runs_cashLetters :
    ∀ (cs : List (CashLetter Vals)) (cls : List (CashLetter Vals)), (∀ cl ∈ cs, CashLetterOK m e ln cl) →
      Runs m e ⟨cls, { header := none, control := none }, none⟩ (cs.flatMap (clRecs ln))
        ⟨cls ++ cs, { header := none, control := none }, none⟩
  | [], cls, _ => by simpa using Runs.nil _
  | cl :: cs, cls, hok => by
    have r1 := runs_cashLetter m e ln cls { header := none, control := none } none cl rfl (hok cl (by simp))
    have r2 := runs_cashLetters cs (cls ++ [cl]) (fun x hx => hok x (by simp [hx]))
    simp only [List.flatMap_cons]
    have := Runs.append r1 r2
    simpa [List.append_assoc] using this

end

end Icl.C01
