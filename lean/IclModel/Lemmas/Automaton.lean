/-
The X9 nesting automaton (specification side of C04): which cash letter / bundle / item does each
input record belong to, judged only by the records it follows.
-/
import IclModel.Lemmas.Census
namespace Icl.C04
open Icl

structure AState where
  cl : Nat := 0
  b : Nat := 0
  it : Nat := 0
  inCL : Bool := false
  inB : Bool := false
  ok : Bool := true
  seenFH : Nat := 0
  seenFC : Nat := 0
deriving DecidableEq, Repr

/-- one step of the nesting automaton -/
def astep (a : AState) (k : Kind) : AState × Place :=
  match k with
  | .fileHeader => ({ a with seenFH := a.seenFH + 1 }, ⟨k, 0, 0, 0⟩)
  | .fileControl => ({ a with seenFC := a.seenFC + 1, ok := a.ok && !a.inCL }, ⟨k, 0, 0, 0⟩)
  | .cashLetterHeader =>
    ({ a with cl := a.cl + 1, b := 0, it := 0, inCL := true, inB := false, ok := a.ok && !a.inCL }, ⟨k, a.cl + 1, 0, 0⟩)
  | .cashLetterControl =>
    ({ a with inCL := false, inB := false, ok := a.ok && a.inCL && !a.inB }, ⟨k, a.cl, 0, 0⟩)
  | .credit | .creditItem | .rns => ({ a with ok := a.ok && a.inCL }, ⟨k, a.cl, 0, 0⟩)
  | .bundleHeader =>
    ({ a with b := a.b + 1, it := 0, inB := true, ok := a.ok && a.inCL && !a.inB }, ⟨k, a.cl, a.b + 1, 0⟩)
  | .bundleControl => ({ a with inB := false, ok := a.ok && a.inB }, ⟨k, a.cl, a.b, 0⟩)
  | .checkDetail | .returnDetail => ({ a with it := a.it + 1, ok := a.ok && a.inB }, ⟨k, a.cl, a.b, a.it + 1⟩)
  | _ => ({ a with ok := a.ok && a.inB && a.it != 0 }, ⟨k, a.cl, a.b, a.it⟩)

def attributeAux : AState → List Kind → List Place × AState
  | a, [] => ([], a)
  | a, k :: r =>
    let (a', p) := astep a k
    let (ps, af) := attributeAux a' r
    (p :: ps, af)

/-- places of all input records, and whether the sequence is well nested -/
def attributeAll (ks : List Kind) : List Place × Bool :=
  let (ps, a) := attributeAux {} ks
  (ps, a.ok && a.seenFH == 1 && a.seenFC == 1 && !a.inCL && !a.inB)

end Icl.C04
