/-
Lemmas that connect the positions written in the Spec tables (`start`, `width`) with the
byte offsets computed by `render`.
-/
import IclModel.Lemmas.Render
import IclModel.Spec.Types
namespace Icl
open Spec

theorem fixedWidth_append (a b : List WField) : fixedWidth (a ++ b) = fixedWidth a + fixedWidth b := by
  induction a with
  | nil => simp [fixedWidth]
  | cons f r ih => simp [fixedWidth, ih]; omega

theorem contiguousFrom_start (p : Nat) (fs : List SField) (h : contiguousFrom p fs = true)
    (i : Nat) (hi : i < fs.length) : fs[i].start = p + fixedWidth (toWrite (fs.take i)) := by
  induction fs generalizing p i with
  | nil => simp at hi
  | cons f r ih =>
    simp only [contiguousFrom, Bool.and_eq_true, beq_iff_eq] at h
    cases i with
    | zero => simp [toWrite, fixedWidth, h.1]
    | succ j =>
      have := ih (p + f.width) h.2 j (by simpa using hi)
      simp only [List.getElem_cons_succ, List.take_succ_cons, toWrite, List.map_cons, fixedWidth] at this ⊢
      rw [this]; simp [SField.toW, toWrite]; omega

theorem allWf_take (ws : List WField) (n : Nat) (h : AllWf ws = true) : AllWf (ws.take n) = true := by
  simp only [AllWf, List.all_eq_true] at h ⊢
  intro x hx; exact h x (List.mem_of_mem_take hx)

theorem allFixed_take (ws : List WField) (n : Nat) (h : AllFixed ws = true) : AllFixed (ws.take n) = true := by
  simp only [AllFixed, List.all_eq_true] at h ⊢
  intro x hx; exact h x (List.mem_of_mem_take hx)

/-- **columns, fixed-width records, in the Spec's own coordinates**: whatever the values, columns
`[start, start+width)` of the rendered record are exactly the field's converter output. -/
theorem render_columns_fixed (b64 : Bytes → Option Bytes) (fs : List SField) (incl : Bool) (v : Vals)
    (hc : Contiguous fs = true) (hw : AllWf (toWrite fs) = true) (hf : AllFixed (toWrite fs) = true)
    (ht : TypeSet v) (i : Nat) (hi : i < fs.length) :
    ((render b64 (toWrite fs) incl v).drop fs[i].start).take fs[i].width
      = renderField b64 fs[i].toW v := by
  have hsplit : toWrite fs = toWrite (fs.take i) ++ fs[i].toW :: toWrite (fs.drop (i+1)) := by
    have : fs = fs.take i ++ fs[i] :: fs.drop (i+1) := by simp
    simp only [toWrite]
    conv => lhs; rw [this]
    simp only [List.map_append, List.map_cons]
  have hpre : AllWf (toWrite (fs.take i)) = true := by
    have := allWf_take (toWrite fs) i hw
    simpa [toWrite, List.map_take] using this
  have hpref : AllFixed (toWrite (fs.take i)) = true := by
    have := allFixed_take (toWrite fs) i hf
    simpa [toWrite, List.map_take] using this
  have hstart : fs[i].start = sumLen b64 incl v (toWrite (fs.take i)) := by
    rw [sumLen_fixed b64 _ incl v hpref]
    have := contiguousFrom_start 0 fs hc i hi
    simpa using this
  have hmem : fs[i].toW ∈ toWrite fs := by
    simp only [toWrite, List.mem_map]; exact ⟨fs[i], List.getElem_mem hi, rfl⟩
  have hwi : WfW fs[i].toW = true := by
    simp only [AllWf, List.all_eq_true] at hw; exact hw _ hmem
  have hfi : (FixedConv fs[i].toW.conv && !fs[i].toW.imageOnly) = true := by
    simp only [AllFixed, List.all_eq_true] at hf; exact hf _ hmem
  have hcol := render_columns b64 (toWrite (fs.take i)) fs[i].toW (toWrite (fs.drop (i+1))) incl v hpre ht
  rw [← hsplit, ← hstart] at hcol
  simp only [Bool.and_eq_true, Bool.not_eq_true'] at hfi
  have hbytes : fieldBytes b64 incl fs[i].toW v = renderField b64 fs[i].toW v := by
    simp [fieldBytes, hfi.2]
  rw [hbytes, renderField_length b64 _ v hwi ht] at hcol
  have hlen : lenOf b64 fs[i].toW v = fs[i].width := by
    unfold lenOf
    have := hfi.1
    cases hcv : fs[i].toW.conv <;> simp [hcv, FixedConv] at this ⊢ <;> rfl
  rw [hlen] at hcol
  exact hcol

end Icl

namespace Icl
open Spec

theorem render_columns_at (b64 : Bytes → Option Bytes) (ws : List WField) (incl : Bool) (v : Vals)
    (hw : AllWf ws = true) (ht : TypeSet v) (i : Nat) (hi : i < ws.length) :
    ((render b64 ws incl v).drop (sumLen b64 incl v (ws.take i))).take (fieldBytes b64 incl ws[i] v).length
      = fieldBytes b64 incl ws[i] v := by
  have hsplit : ws = ws.take i ++ ws[i] :: ws.drop (i+1) := by simp
  have := render_columns b64 (ws.take i) ws[i] (ws.drop (i+1)) incl v (allWf_take ws i hw) ht
  rw [← hsplit] at this
  exact this

theorem fixedNotImage_take (ws : List WField) (n : Nat) (h : FixedNotImage ws = true) :
    FixedNotImage (ws.take n) = true := by
  simp only [FixedNotImage, List.all_eq_true] at h ⊢
  intro x hx; exact h x (List.mem_of_mem_take hx)

/-- the variable sections that precede field `i` -/
def sectionsBefore (fs : List SField) (i : Nat) : List WField :=
  (toWrite (fs.take i)).filter (fun f => !FixedConv f.conv)

/-- **columns, records with variable sections**: field `i` starts at its tabulated column plus the
sizes of the variable sections before it (the "(118+X+Y)" of the standard) and holds exactly its own
rendering, whatever the values. -/
theorem render_columns_var (b64 : Bytes → Option Bytes) (fs : List SField) (incl : Bool) (v : Vals)
    (hc : Contiguous fs = true) (hw : AllWf (toWrite fs) = true) (hio : FixedNotImage (toWrite fs) = true)
    (ht : TypeSet v) (i : Nat) (hi : i < fs.length) :
    ((render b64 (toWrite fs) incl v).drop
        (fs[i].start + sumLen b64 incl v (sectionsBefore fs i))).take
      (fieldBytes b64 incl fs[i].toW v).length = fieldBytes b64 incl fs[i].toW v := by
  have hi' : i < (toWrite fs).length := by simpa [toWrite] using hi
  have hcol := render_columns_at b64 (toWrite fs) incl v hw ht i hi'
  have hget : (toWrite fs)[i] = fs[i].toW := by simp [toWrite]
  have htake : (toWrite fs).take i = toWrite (fs.take i) := by simp [toWrite, List.map_take]
  rw [hget, htake] at hcol
  have hpre : AllWf (toWrite (fs.take i)) = true := by rw [← htake]; exact allWf_take _ i hw
  have hpio : FixedNotImage (toWrite (fs.take i)) = true := by rw [← htake]; exact fixedNotImage_take _ i hio
  rw [sumLen_filter b64 _ incl v hpre hpio] at hcol
  have hstart := contiguousFrom_start 0 fs hc i hi
  simp only [Nat.zero_add] at hstart
  rw [← hstart] at hcol
  exact hcol

end Icl
