/-
Helper lemmas about the repository model (IclModel/Api.lean): association-list facts, the store
invariant, agreement of the value scan of GetFile with a lookup by key.
-/
import IclModel.Api
namespace Icl.Api
open Spec

theorem lookup_put (s : Store) (k k' : String) (f : AFile) :
    lookup (put s k f) k' = if k' = k then some f else lookup s k' := by
  induction s with
  | nil =>
    by_cases h : k' = k
    · simp [put, lookup, List.lookup, h]
    · have : (k' == k) = false := by simpa using h
      simp [put, lookup, List.lookup, h, this]
  | cons kv r ih =>
    obtain ⟨k0, f0⟩ := kv
    unfold lookup at ih ⊢
    by_cases h0 : k0 = k
    · subst h0
      by_cases h : k' = k0
      · simp [put, List.lookup, h]
      · have : (k' == k0) = false := by simpa using h
        simp [put, List.lookup, h, this]
    · simp only [put, h0, if_false]
      by_cases h1 : k' = k0
      · subst h1
        have : ¬ k' = k := h0
        simp [List.lookup, this]
      · have : (k' == k0) = false := by simpa using h1
        simp [List.lookup, this, ih]

theorem lookup_erase (s : Store) (k k' : String) :
    lookup (remove s k) k' = if k' = k then none else lookup s k' := by
  induction s with
  | nil => simp [remove, lookup, List.lookup]
  | cons kv r ih =>
    obtain ⟨k0, f0⟩ := kv
    unfold lookup remove at ih ⊢
    rw [List.filter_cons]
    by_cases h0 : k0 = k
    · subst h0
      simp only [ne_eq, not_true_eq_false, decide_false, Bool.false_eq_true, if_false]
      rw [ih]
      by_cases h : k' = k0
      · simp [h]
      · have : (k' == k0) = false := by simpa using h
        simp [List.lookup, h, this]
    · have hk : (decide (k0 ≠ k)) = true := by simpa using h0
      simp only [hk, if_true]
      by_cases h1 : k' = k0
      · subst h1
        have : ¬ k' = k := h0
        simp [List.lookup, this]
      · have : (k' == k0) = false := by simpa using h1
        simp only [List.lookup, this]
        exact ih

theorem keys_put (s : Store) (k : String) (f : AFile) :
    ∀ x, x ∈ (put s k f).map (·.1) ↔ x = k ∨ x ∈ s.map (·.1) := by
  induction s with
  | nil => intro x; simp [put]
  | cons kv r ih =>
    obtain ⟨k0, f0⟩ := kv
    intro x
    by_cases h0 : k0 = k
    · subst h0; simp [put]
    · simp only [put, h0, if_false, List.map_cons, List.mem_cons, ih]
      constructor
      · rintro (h | h | h) <;> simp [h]
      · rintro (h | h | h) <;> simp [h]

theorem put_nodup (s : Store) (k : String) (f : AFile) (h : (s.map (·.1)).Nodup) :
    ((put s k f).map (·.1)).Nodup := by
  induction s with
  | nil => simp [put]
  | cons kv r ih =>
    obtain ⟨k0, f0⟩ := kv
    simp only [List.map_cons, List.nodup_cons] at h
    by_cases h0 : k0 = k
    · subst h0; simpa [put] using h
    · simp only [put, h0, if_false, List.map_cons, List.nodup_cons]
      refine ⟨?_, ih h.2⟩
      intro hm
      rcases (keys_put r k f k0).1 hm with h1 | h1
      · exact h0 h1
      · exact h.1 h1

theorem mem_put (s : Store) (k : String) (f : AFile) (kv : String × AFile) (h : kv ∈ put s k f) :
    kv = (k, f) ∨ kv ∈ s := by
  induction s with
  | nil => simpa [put] using h
  | cons kv0 r ih =>
    obtain ⟨k0, f0⟩ := kv0
    by_cases h0 : k0 = k
    · subst h0
      simp only [put, if_true, List.mem_cons] at h
      rcases h with h | h
      · exact .inl h
      · exact .inr (List.mem_cons_of_mem _ h)
    · simp only [put, h0, if_false, List.mem_cons] at h
      rcases h with h | h
      · exact .inr (by simp [h])
      · rcases ih h with h | h
        · exact .inl h
        · exact .inr (List.mem_cons_of_mem _ h)

theorem inv_nil : Inv [] := by simp [Inv]

theorem inv_put (s : Store) (f : AFile) (hs : Inv s) (hf : f.id ≠ "") : Inv (put s f.id f) := by
  refine ⟨put_nodup s f.id f hs.1, ?_⟩
  intro kv hkv
  rcases mem_put s f.id f kv hkv with h | h
  · subst h; exact ⟨rfl, hf⟩
  · exact hs.2 kv h

theorem inv_erase (s : Store) (k : String) (hs : Inv s) : Inv (remove s k) := by
  refine ⟨?_, ?_⟩
  · unfold remove
    have := hs.1
    exact (List.Nodup.sublist (List.Sublist.map _ List.filter_sublist) this)
  · intro kv hkv
    exact hs.2 kv ((List.mem_filter.1 hkv).1)

/-- under the invariant the value scan of `GetFile` is the lookup by key -/
theorem getFile_eq_lookup (s : Store) (hs : Inv s) (id : String) : getFile s id = lookup s id := by
  induction s with
  | nil => simp [getFile, lookup, List.lookup]
  | cons kv r ih =>
    obtain ⟨k0, f0⟩ := kv
    have hk := hs.2 (k0, f0) (by simp)
    simp only at hk
    have hr : Inv r := by
      refine ⟨?_, fun kv h => hs.2 kv (List.mem_cons_of_mem _ h)⟩
      have := hs.1
      simp only [List.map_cons, List.nodup_cons] at this
      exact this.2
    have ih := ih hr
    unfold getFile lookup at ih ⊢
    by_cases h : id = k0
    · subst h
      simp [List.find?, List.lookup, hk.1]
    · have h1 : (id == k0) = false := by simpa using h
      have h2 : ¬ f0.id = id := by rw [hk.1]; exact fun e => h e.symm
      simp [List.find?, List.lookup, h1, h2]
      simpa using ih

theorem lookup_empty_key (s : Store) (hs : Inv s) : lookup s "" = none := by
  unfold lookup
  cases h : List.lookup "" s with
  | none => rfl
  | some f =>
    exfalso
    have : ("", f) ∈ s := by
      clear hs
      induction s with
      | nil => simp [List.lookup] at h
      | cons kv r ih =>
        obtain ⟨k0, f0⟩ := kv
        by_cases h0 : "" = k0
        · subst h0; simp [List.lookup] at h; simp [h]
        · have : ("" == k0) = false := by simpa using h0
          simp [List.lookup, this] at h
          exact List.mem_cons_of_mem _ (ih h)
    exact (hs.2 _ this).2 rfl

theorem lookup_some_id (s : Store) (hs : Inv s) (id : String) (f : AFile) (h : lookup s id = some f) :
    f.id = id ∧ id ≠ "" := by
  have : (id, f) ∈ s := by
    clear hs
    unfold lookup at h
    induction s with
    | nil => simp [List.lookup] at h
    | cons kv r ih =>
      obtain ⟨k0, f0⟩ := kv
      by_cases h0 : id = k0
      · subst h0; simp [List.lookup] at h; simp [h]
      · have : (id == k0) = false := by simpa using h0
        simp [List.lookup, this] at h
        exact List.mem_cons_of_mem _ (ih h)
  exact hs.2 _ this

end Icl.Api
