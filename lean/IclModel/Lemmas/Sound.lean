/-
Soundness of the factoring of the reader step (converse of `rstep_of_push`): an accepted record below
the file level was decoded to some value and attached by `pushRec`.
-/
import IclModel.Lemmas.Reassemble
namespace Icl.C01
open Icl Icl.C04

theorem pv_ok {ε : Type} (x : Except String Vals) (f : String → ε) (v : Vals)
    (h : (match x with
      | .ok v => (Except.ok v : Except ε Vals)
      | .error e => .error (f e)) = .ok v) : x = .ok v := by
  cases x with
  | ok w => simpa using h
  | error e => simp at h

set_option hygiene false in
/-- finish a case of `push_of_rstep` -/
syntax "sound_fin" "[" Lean.Parser.Tactic.simpLemma,* "]" : tactic
set_option hygiene false in
macro_rules
  | `(tactic| sound_fin [$ts,*]) => `(tactic|
      (obtain ⟨v, hv, hp⟩ := bind_ok _ _ _ h
       have hv' := pv_ok _ _ _ hv
       simp only [pure, Except.pure, Except.ok.injEq] at hp
       subst hp
       refine ⟨v, by simpa [recParse, v0For, tmpl] using hv', ?_, ⟨rfl, rfl, rfl, rfl⟩⟩
       first
         | (simp [pushRec, RState.core, lastCheckUpd, lastReturnUpd, RState.updLastCheck, RState.updLastReturn, tmpl, $ts,*]; done)
         | (simp only [pushRec, if_true, Bool.false_eq_true, if_false, $ts,*]
            simp [RState.core, lastCheckUpd, lastReturnUpd, RState.updLastCheck, RState.updLastReturn])))

set_option hygiene false in
/-- finish the cash letter control case of `push_of_rstep` (bundle closed: `hclosed`, header present: `hn`) -/
syntax "clc_fin" : tactic
set_option hygiene false in
macro_rules
  | `(tactic| clc_fin) => `(tactic|
      (cases hc0 : s.cur.control with
       | none => simp [hc0] at h
       | some c0 =>
         simp only [hc0] at h
         obtain ⟨v, hv, hp⟩ := bind_ok _ _ _ h
         have hv' := pv_ok _ _ _ hv
         split at hp
         · simp at hp
         · rename_i hcv
           simp only [pure, Except.pure, Except.ok.injEq] at hp
           subst hp
           refine ⟨v, by simpa [recParse, v0For, RState.core, hc0] using hv', ?_, ⟨rfl, rfl, rfl, rfl⟩⟩
           simp only [pushRec, hn, hclosed, Bool.false_eq_true, if_false]
           simp [RState.core, hc0, hcl, hcv]))

theorem push_of_rstep (m : Model) (e : Enc) (s s' : RState) (line : Bytes) (k : Kind)
    (hk : kindOfLine line = some k) (hin : inner k = true) (h : rstep m e s line = .ok s') :
    ∃ v, recParse m e k line (v0For m s.core k) = .ok v ∧ pushRec m s.core k v = some s'.core ∧ sameOuter s s' := by
  cases k with
  | fileHeader => simp [inner] at hin
  | fileControl => simp [inner] at hin
  | cashLetterHeader =>
    simp only [rstep, hk] at h
    split at h
    · simp at h
    · rename_i hcl
      have hcl' : s.cur.header.isSome = false := bool_false_of_not _ hcl
      sound_fin [hcl']
  | credit =>
    simp only [rstep, hk] at h
    split at h
    · simp at h
    · rename_i hcl
      have hcl' : s.cur.header.isNone = false := bool_false_of_not _ hcl
      sound_fin [hcl']
  | creditItem =>
    simp only [rstep, hk] at h
    split at h
    · simp at h
    · rename_i hcl
      have hcl' : s.cur.header.isNone = false := bool_false_of_not _ hcl
      sound_fin [hcl']
  | rns =>
    simp only [rstep, hk] at h
    split at h
    · simp at h
    · rename_i hcl
      have hcl' : s.cur.header.isNone = false := bool_false_of_not _ hcl
      sound_fin [hcl']
  | cdAddA =>
    simp only [rstep, hk] at h
    split at h
    · simp at h
    · rename_i hc
      have hc' : coreHasChecks s.core = true := by
        have := hc
        simp only [Bool.not_eq_true, Bool.not_eq_eq_eq_not, Bool.not_true, Bool.not_eq_false] at this
        exact this
      sound_fin [hc']
  | cdAddB =>
    simp only [rstep, hk] at h
    split at h
    · simp at h
    · rename_i hc
      have hc' : coreHasChecks s.core = true := by
        have := hc
        simp only [Bool.not_eq_true, Bool.not_eq_eq_eq_not, Bool.not_true, Bool.not_eq_false] at this
        exact this
      sound_fin [hc']
  | cdAddC =>
    simp only [rstep, hk] at h
    split at h
    · simp at h
    · rename_i hc
      have hc' : coreHasChecks s.core = true := by
        have := hc
        simp only [Bool.not_eq_true, Bool.not_eq_eq_eq_not, Bool.not_true, Bool.not_eq_false] at this
        exact this
      sound_fin [hc']
  | rdAddA =>
    simp only [rstep, hk] at h
    split at h
    · simp at h
    · rename_i hc
      have hc' : coreHasReturns s.core = true := by
        have := hc
        simp only [Bool.not_eq_true, Bool.not_eq_eq_eq_not, Bool.not_true, Bool.not_eq_false] at this
        exact this
      sound_fin [hc']
  | rdAddB =>
    simp only [rstep, hk] at h
    split at h
    · simp at h
    · rename_i hc
      have hc' : coreHasReturns s.core = true := by
        have := hc
        simp only [Bool.not_eq_true, Bool.not_eq_eq_eq_not, Bool.not_true, Bool.not_eq_false] at this
        exact this
      sound_fin [hc']
  | rdAddC =>
    simp only [rstep, hk] at h
    split at h
    · simp at h
    · rename_i hc
      have hc' : coreHasReturns s.core = true := by
        have := hc
        simp only [Bool.not_eq_true, Bool.not_eq_eq_eq_not, Bool.not_true, Bool.not_eq_false] at this
        exact this
      sound_fin [hc']
  | rdAddD =>
    simp only [rstep, hk] at h
    split at h
    · simp at h
    · rename_i hc
      have hc' : coreHasReturns s.core = true := by
        have := hc
        simp only [Bool.not_eq_true, Bool.not_eq_eq_eq_not, Bool.not_true, Bool.not_eq_false] at this
        exact this
      sound_fin [hc']
  | ivDetail =>
    simp only [rstep, hk] at h
    split at h
    · rename_i hc
      have hc' : coreHasChecks s.core = true := hc
      sound_fin [hc']
    · rename_i hc
      have hc' : coreHasChecks s.core = false := bool_false_of_not _ hc
      split at h
      · rename_i hr
        have hr' : coreHasReturns s.core = true := hr
        sound_fin [hc', hr']
      · simp at h
  | ivData =>
    simp only [rstep, hk] at h
    split at h
    · rename_i hc
      have hc' : coreHasChecks s.core = true := hc
      sound_fin [hc']
    · rename_i hc
      have hc' : coreHasChecks s.core = false := bool_false_of_not _ hc
      split at h
      · rename_i hr
        have hr' : coreHasReturns s.core = true := hr
        sound_fin [hc', hr']
      · simp at h
  | ivAnalysis =>
    simp only [rstep, hk] at h
    split at h
    · rename_i hc
      have hc' : coreHasChecks s.core = true := hc
      sound_fin [hc']
    · rename_i hc
      have hc' : coreHasChecks s.core = false := bool_false_of_not _ hc
      split at h
      · rename_i hr
        have hr' : coreHasReturns s.core = true := hr
        sound_fin [hc', hr']
      · simp at h
  | checkDetail =>
    cases hcb : s.curBundle with
    | none => simp [rstep, hk, hcb] at h
    | some b =>
      simp only [rstep, hk, hcb] at h
      obtain ⟨v, hv, hp⟩ := bind_ok _ _ _ h
      have hv' := pv_ok _ _ _ hv
      split at hp
      · simp at hp
      · rename_i hh
        split at hp
        · simp at hp
        · rename_i hr
          simp only [pure, Except.pure, Except.ok.injEq] at hp
          subst hp
          have hh' : b.header.isNone = false := bool_false_of_not _ hh
          have hr' : (!b.returns.isEmpty) = false := bool_false_of_not _ hr
          refine ⟨v, by simpa [recParse, v0For, tmpl] using hv', ?_, ⟨rfl, rfl, rfl, rfl⟩⟩
          simp [pushRec, RState.core, hcb, hh', hr']
  | returnDetail =>
    cases hcb : s.curBundle with
    | none => simp [rstep, hk, hcb] at h
    | some b =>
      simp only [rstep, hk, hcb] at h
      obtain ⟨v, hv, hp⟩ := bind_ok _ _ _ h
      have hv' := pv_ok _ _ _ hv
      split at hp
      · simp at hp
      · rename_i hh
        split at hp
        · simp at hp
        · rename_i hr
          simp only [pure, Except.pure, Except.ok.injEq] at hp
          subst hp
          have hh' : b.header.isNone = false := bool_false_of_not _ hh
          have hr' : (!b.checks.isEmpty) = false := bool_false_of_not _ hr
          refine ⟨v, by simpa [recParse, v0For, tmpl] using hv', ?_, ⟨rfl, rfl, rfl, rfl⟩⟩
          simp [pushRec, RState.core, hcb, hh', hr']
  | bundleHeader =>
    cases hcb : s.curBundle with
    | none =>
      simp only [rstep, hk, hcb, Bool.false_eq_true, if_false] at h
      obtain ⟨v, hv, hp⟩ := bind_ok _ _ _ h
      have hv' := pv_ok _ _ _ hv
      split at hp
      · simp at hp
      · rename_i hcl
        simp only [pure, Except.pure, Except.ok.injEq] at hp
        subst hp
        have hcl' : s.cur.header.isNone = false := bool_false_of_not _ hcl
        refine ⟨v, by simpa [recParse, v0For, tmpl] using hv', ?_, ⟨rfl, rfl, rfl, rfl⟩⟩
        simp [pushRec, RState.core, openB, hcb, hcl', tmpl]
    | some b =>
      cases hb : b.header.isSome with
      | true => simp [rstep, hk, hcb, hb] at h
      | false =>
        simp only [rstep, hk, hcb, hb, Bool.false_eq_true, if_false] at h
        obtain ⟨v, hv, hp⟩ := bind_ok _ _ _ h
        have hv' := pv_ok _ _ _ hv
        split at hp
        · simp at hp
        · rename_i hcl
          simp only [pure, Except.pure, Except.ok.injEq] at hp
          subst hp
          have hcl' : s.cur.header.isNone = false := bool_false_of_not _ hcl
          refine ⟨v, by simpa [recParse, v0For, tmpl] using hv', ?_, ⟨rfl, rfl, rfl, rfl⟩⟩
          simp [pushRec, RState.core, openB, hcb, hb, hcl', tmpl]
  | bundleControl =>
    cases hcb : s.curBundle with
    | none => simp [rstep, hk, hcb] at h
    | some b =>
      cases hc0 : b.control with
      | none => simp [rstep, hk, hcb, hc0] at h
      | some c0 =>
        simp only [rstep, hk, hcb, hc0] at h
        obtain ⟨v, hv, hp⟩ := bind_ok _ _ _ h
        have hv' := pv_ok _ _ _ hv
        cases hbv : bundleValidate { b with control := some v } with
        | some f => simp [hbv] at hp
        | none =>
          simp only [hbv, pure, Except.pure, Except.ok.injEq] at hp
          subst hp
          refine ⟨v, by simpa [recParse, v0For, RState.core, hcb, hc0] using hv', ?_, ⟨rfl, rfl, rfl, rfl⟩⟩
          simp [pushRec, RState.core, hcb, hc0, hbv]
  | cashLetterControl =>
    cases hcl : s.cur.header with
    | none => simp [rstep, hk, hcl] at h
    | some hd =>
      have hn : s.core.cur.header.isNone = false := by simp [RState.core, hcl]
      cases hcb : s.curBundle with
      | none =>
        have hclosed : openB s.core = false := by simp [openB, RState.core, hcb]
        simp only [rstep, hk, hcl, hcb, Bool.false_eq_true, if_false] at h
        clc_fin
      | some b =>
        cases hb : b.header.isSome with
        | true => simp [rstep, hk, hcl, hcb, hb] at h
        | false =>
          have hclosed : openB s.core = false := by simp [openB, RState.core, hcb, hb]
          simp only [rstep, hk, hcl, hcb, hb, Bool.false_eq_true, if_false] at h
          clc_fin
