/-
Helper lemmas about the converters of L0: exact output widths, the cut rule, padding shape.
-/
import IclModel.Layout
namespace Icl

theorem alphaField_length (s : Bytes) (w : Nat) (hw : w < maxGrow) : (alphaField s w).length = w := by
  unfold alphaField
  split
  · simp [List.length_take]; omega
  · split
    · simp; omega
    · omega

theorem nbsmField_length (s : Bytes) (w : Nat) (hw : w < maxGrow) : (nbsmField s w).length = w := by
  unfold nbsmField
  split
  · simp; omega
  · split
    · simp; omega
    · omega

theorem zstrField_length (s : Bytes) (w : Nat) (hw : w < maxGrow) : (zstrField s w).length = w := by
  unfold zstrField
  split
  · simp [List.length_take]; omega
  · split
    · simp; omega
    · omega

theorem numericField_length (n : Int) (w : Nat) (hw : w < maxGrow) : (numericField n w).length = w := by
  unfold numericField
  simp only
  split
  · simp; omega
  · split
    · simp; omega
    · omega

theorem digitsW_length (k n : Nat) : (digitsW k n).length = k := by
  induction k generalizing n with
  | zero => simp [digitsW]
  | succ k ih => simp [digitsW, ih]

theorem fmtDate_length (t : Date) : (fmtDate t).length = 8 := by
  simp [fmtDate, digitsW_length]

theorem fmtTime_length (t : HM) : (fmtTime t).length = 4 := by
  simp [fmtTime, digitsW_length]

theorem blanks_length (n : Nat) : (blanks n).length = n := by simp [blanks]

/-! the cut rule: an over-long value is cut to the width, on the side the converter prescribes -/

theorem alphaField_cut (s : Bytes) (w : Nat) (h : w < s.length) : alphaField s w = s.take w := by
  simp [alphaField, h]

theorem zstrField_cut (s : Bytes) (w : Nat) (h : w < s.length) : zstrField s w = s.take w := by
  simp [zstrField, h]

theorem nbsmField_cut (s : Bytes) (w : Nat) (h : w < s.length) : nbsmField s w = s.drop (s.length - w) := by
  simp [nbsmField, h]

theorem numericField_cut (n : Int) (w : Nat) (h : w < (itoa n).length) :
    numericField n w = (itoa n).drop ((itoa n).length - w) := by
  simp [numericField, h]

/-! padding shape for values that fit -/

theorem alphaField_fit (s : Bytes) (w : Nat) (h : s.length ≤ w) (hw : w < maxGrow) :
    alphaField s w = s ++ List.replicate (w - s.length) SP := by
  have h1 : ¬ w < s.length := by omega
  have h2 : w - s.length < maxGrow := by omega
  simp [alphaField, h1, h2]

theorem nbsmField_fit (s : Bytes) (w : Nat) (h : s.length ≤ w) (hw : w < maxGrow) :
    nbsmField s w = List.replicate (w - s.length) SP ++ s := by
  have h1 : ¬ w < s.length := by omega
  have h2 : w - s.length < maxGrow := by omega
  simp [nbsmField, h1, h2]

theorem zstrField_fit (s : Bytes) (w : Nat) (h : s.length ≤ w) (hw : w < maxGrow) :
    zstrField s w = List.replicate (w - s.length) ZERO ++ s := by
  have h1 : ¬ w < s.length := by omega
  have h2 : w - s.length < maxGrow := by omega
  simp [zstrField, h1, h2]

theorem numericField_fit (n : Int) (w : Nat) (h : (itoa n).length ≤ w) (hw : w < maxGrow) :
    numericField n w = List.replicate (w - (itoa n).length) ZERO ++ itoa n := by
  have h1 : ¬ w < (itoa n).length := by omega
  have h2 : w - (itoa n).length < maxGrow := by omega
  simp [numericField, h1, h2]

end Icl
