/-
Encoder lemmas: on ASCII text the rune-level EBCDIC encoder is a byte-for-byte map (length
preserving), which is what makes the length prefix (computed from the ASCII rendering) exact.
-/
import IclModel.Encoding
namespace Icl

def isAscii (s : Bytes) : Bool := s.all (fun b => b < 0x80)

theorem decodeRune_ascii (b : UInt8) (r : Bytes) (h : b < 0x80) : decodeRune (b :: r) = (b.toNat, 1) := by
  simp [decodeRune, h]

theorem encodeFuel_ascii (cm : Charmap) (s : Bytes) (fuel : Nat) (hf : s.length ≤ fuel) (h : isAscii s = true) :
    cm.encodeFuel fuel s = some (s.map (fun b => cm.encRune b.toNat)) := by
  induction s generalizing fuel with
  | nil => cases fuel <;> simp [Charmap.encodeFuel]
  | cons b r ih =>
    cases fuel with
    | zero => simp at hf
    | succ n =>
      simp only [isAscii, List.all_cons, Bool.and_eq_true, decide_eq_true_eq] at h
      have hb : b < 0x80 := h.1
      have hr : isAscii r = true := by simpa [isAscii] using h.2
      have hne : b.toNat ≠ 0xFFFD := by
        have : b.toNat < 128 := by
          have := UInt8.lt_iff_toNat_lt.mp hb
          simpa using this
        omega
      simp only [Charmap.encodeFuel, decodeRune_ascii b r hb]
      have : ((b.toNat == 0xFFFD) && ((1:Nat) == 1) && incompleteRune (b :: r)) = false := by
        simp [hne]
      simp only [this, Bool.false_eq_true, if_false, List.drop_one, List.tail_cons]
      rw [ih n (by simpa using hf) hr]
      simp

/-- **EBCDIC transliteration of ASCII text is byte for byte** (so it preserves length) -/
theorem encode_ascii (cm : Charmap) (s : Bytes) (h : isAscii s = true) :
    cm.encode s = some (s.map (fun b => cm.encRune b.toNat)) :=
  encodeFuel_ascii cm s s.length (Nat.le_refl _) h

theorem encode_ascii_length (cm : Charmap) (s t : Bytes) (h : isAscii s = true) (he : cm.encode s = some t) :
    t.length = s.length := by
  rw [encode_ascii cm s h] at he
  cases he; simp

end Icl
