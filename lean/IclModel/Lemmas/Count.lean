/-
The file control's record counter against the writer walk: `clRecordCount` (what File.Create adds
up) equals the number of records `CashLetter.flatten` (what Writer.Write emits) for every cash
letter whose image-view lists pass the writer's own consistency check.
-/
import IclModel.Build
namespace Icl

/-- per index: one detail record, plus a data record when present, plus an analysis record -/
theorem sum_range_ite (n d : Nat) : ((List.range n).map (fun i => if i < d then 1 else 0)).sum = min n d := by
  induction n with
  | zero => simp
  | succ k ih =>
    rw [List.range_succ, List.map_append, List.sum_append, ih]
    simp only [List.map_cons, List.map_nil, List.sum_cons, List.sum_nil]
    split <;> omega

theorem optLen {α} (l : List α) (i : Nat) :
    (match l[i]? with | some r => [(Kind.ivData, some r)] | none => ([] : List (Kind × Option α))).length
      = if i < l.length then 1 else 0 := by
  by_cases h : i < l.length
  · simp [h]
  · simp [h]

theorem sum_map_one (n : Nat) : ((List.range n).map (fun _ => 1)).sum = n := by
  induction n with
  | zero => simp
  | succ k ih => rw [List.range_succ, List.map_append, List.sum_append, ih]; simp

theorem sum_map_add (l : List Nat) (f g : Nat → Nat) :
    (l.map (fun i => f i + g i)).sum = (l.map f).sum + (l.map g).sum := by
  induction l with
  | nil => simp
  | cons x r ih => simp only [List.map_cons, List.sum_cons, ih]; omega

/-- number of records an item contributes to the writer's output -/
theorem item_flatten_length {α} (isCheck : Bool) (it : Item α) :
    (Item.flatten isCheck it).length =
      1 + it.addA.length + it.addB.length + it.addC.length + (if isCheck then 0 else it.addD.length) +
        (it.ivDetail.length + min it.ivDetail.length it.ivData.length + min it.ivDetail.length it.ivAnalysis.length) := by
  unfold Item.flatten
  simp only [List.length_append, List.length_cons, List.length_nil, List.length_map, List.length_flatMap]
  have hopt : ∀ (k : Kind) (l : List α) (i : Nat), (optRec k l i).length = if i < l.length then 1 else 0 := by
    intro k l i
    unfold optRec
    by_cases h : i < l.length <;> simp [h]
  have hpt : ∀ i ∈ List.range it.ivDetail.length,
      (optRec Kind.ivDetail it.ivDetail i).length + (optRec Kind.ivData it.ivData i).length +
        (optRec Kind.ivAnalysis it.ivAnalysis i).length
      = (1 + (if i < it.ivData.length then 1 else 0)) + (if i < it.ivAnalysis.length then 1 else 0) := by
    intro i hi
    have hi' : i < it.ivDetail.length := by simpa using hi
    rw [hopt, hopt, hopt]
    simp [hi']
  rw [List.map_congr_left hpt, sum_map_add, sum_map_add, sum_range_ite, sum_range_ite, sum_map_one]
  cases isCheck <;> simp <;> omega

/-- with the writer's own image-count check, the counter's formula is the walk's length -/
theorem item_count_eq_flatten (isCheck : Bool) (it : Item Vals) (h : it.imageCountsOK = true) :
    itemRecordCount isCheck it = (Item.flatten isCheck it).length := by
  rw [item_flatten_length]
  unfold itemRecordCount
  simp only [Item.imageCountsOK, Bool.and_eq_true, Bool.or_eq_true, List.isEmpty_iff, beq_iff_eq] at h
  have hd : min it.ivDetail.length it.ivData.length = it.ivData.length := by
    rcases h.1 with h0 | h1
    · simp [h0]
    · omega
  have ha : min it.ivDetail.length it.ivAnalysis.length = it.ivAnalysis.length := by
    rcases h.2 with h0 | h1
    · simp [h0]
    · omega
  rw [hd, ha]
  omega

theorem sum_map_congr {α} (l : List α) (f g : α → Nat) (h : ∀ x ∈ l, f x = g x) : (l.map f).sum = (l.map g).sum := by
  rw [List.map_congr_left h]

theorem bundle_count_eq_flatten (b : Bundle Vals)
    (h : (b.checks.all Item.imageCountsOK && b.returns.all Item.imageCountsOK) = true) :
    bundleRecordCount b = (Bundle.flatten b).length := by
  simp only [Bool.and_eq_true, List.all_eq_true] at h
  unfold bundleRecordCount Bundle.flatten
  simp only [List.length_append, List.length_cons, List.length_nil, List.length_flatMap]
  rw [sum_map_congr b.checks _ _ (fun x hx => item_count_eq_flatten true x (h.1 x hx)),
    sum_map_congr b.returns _ _ (fun x hx => item_count_eq_flatten false x (h.2 x hx))]
  omega

theorem cl_count_eq_flatten (cl : CashLetter Vals)
    (h : cl.bundles.all (fun b => b.checks.all Item.imageCountsOK && b.returns.all Item.imageCountsOK) = true) :
    clRecordCount cl = (CashLetter.flatten cl).length := by
  simp only [List.all_eq_true] at h
  unfold clRecordCount CashLetter.flatten
  simp only [List.length_append, List.length_cons, List.length_nil, List.length_map, List.length_flatMap]
  rw [sum_map_congr cl.bundles _ _ (fun b hb => bundle_count_eq_flatten b (h b hb))]
  omega

/-- **TotalRecordCount = number of records written**, for any file whose image-view lists the writer
accepts -/
theorem file_count_eq_flatten (f : File Vals) (h : f.imageCountsOK = true) :
    2 + (f.cashLetters.map clRecordCount).sum = f.flatten.length := by
  unfold File.imageCountsOK at h
  simp only [List.all_eq_true] at h
  unfold File.flatten
  simp only [List.length_append, List.length_cons, List.length_nil, List.length_flatMap]
  rw [sum_map_congr f.cashLetters _ _ (fun cl hcl => cl_count_eq_flatten cl (by
    simp only [List.all_eq_true]; intro b hb; exact h cl hcl b hb))]
  omega

end Icl
