/-
Building twice = building once, at the level of `File.Create()` (and `Bundle.build()` inside it):
the rebuilt controls are functions of the items and of the caller-settable members, which a build
carries over unchanged.
-/
import IclModel.Build
namespace Icl.C17
open Icl

theorem Vals.ext' (a b : Vals) (hs : ∀ k, a.s k = b.s k) (hi : ∀ k, a.i k = b.i k)
    (hd : ∀ k, a.d k = b.d k) (ht : ∀ k, a.t k = b.t k) : a = b := by
  cases a; cases b
  simp only [Vals.mk.injEq]
  exact ⟨funext hs, funext hi, funext hd, funext ht⟩

/-- setting a string member to the value it already has changes nothing -/
theorem setS_self (v : Vals) (k : String) : v.setS k (v.s k) = v := by
  apply Vals.ext' <;> intro k' <;> simp [Vals.setS]
  intro h; rw [h]

theorem setS_setS_same (v : Vals) (k : String) (x y : Bytes) : (v.setS k x).setS k y = v.setS k y := by
  apply Vals.ext' <;> intro k' <;> simp [Vals.setS]
  split <;> rfl

theorem setS_comm (v : Vals) (k1 k2 : String) (x y : Bytes) (h : k1 ≠ k2) :
    (v.setS k1 x).setS k2 y = (v.setS k2 y).setS k1 x := by
  apply Vals.ext' <;> intro k' <;> simp [Vals.setS]
  by_cases h2 : k' = k2
  · subst h2; simp [Ne.symm h]
  · simp [h2]

/-- the control a second `Bundle.build()` computes is the control the first one computed -/
theorem bundleControlOf_idem (m : Model) (b : Bundle Vals) :
    bundleControlOf m { b with control := some (bundleControlOf m b) } = bundleControlOf m b := by
  cases hc : b.control with
  | none =>
    simp only [bundleControlOf, hc]
    rw [setS_self, setS_self]
  | some old =>
    simp only [bundleControlOf, hc]
    apply Vals.ext'
    · intro k'
      simp only [Vals.setS, Vals.setI]
      by_cases h1 : k' = "UserField"
      · simp [h1]
      · by_cases h2 : k' = "ID"
        · simp [h2]
        · simp [h1, h2]
    · intro k'; rfl
    · intro k'; rfl
    · intro k'; rfl

theorem bundleBuild_idem (m : Model) (b b' : Bundle Vals) (h : bundleBuild m b = .ok b') :
    bundleBuild m b' = .ok b' := by
  have hb := bundleBuild_ok m b b' h
  subst hb
  unfold bundleBuild at h ⊢
  simp only [bundleControlOf_idem]
  exact h

theorem bundleValidate_control (b : Bundle Vals) (c : Option Vals) :
    bundleValidate { b with control := c } = bundleValidate b := rfl

theorem fileBundles_idem (m : Model) : ∀ (bs bs' : List (Bundle Vals)), fileBundles m bs = .ok bs' →
    fileBundles m bs' = .ok bs'
  | [], bs', h => by
    simp only [fileBundles, Except.ok.injEq] at h
    subst h; rfl
  | b :: r, bs', h => by
    simp only [fileBundles] at h
    split at h
    · cases h
    · rename_i hv
      split at h
      · cases h
      · rename_i b2 hb
        split at h
        · cases h
        · rename_i rs hr
          simp only [Except.ok.injEq] at h
          subst h
          have hb2 := bundleBuild_ok m b b2 hb
          simp only [fileBundles]
          have : bundleValidate b2 = none := by rw [hb2, bundleValidate_control]; exact hv
          simp only [this, bundleBuild_idem m b b2 hb, fileBundles_idem m r rs hr]

theorem fileBundles_isEmpty (m : Model) : ∀ (bs bs' : List (Bundle Vals)), fileBundles m bs = .ok bs' →
    bs'.isEmpty = bs.isEmpty
  | [], bs', h => by
    simp only [fileBundles, Except.ok.injEq] at h
    subst h; rfl
  | b :: r, bs', h => by
    simp only [fileBundles] at h
    split at h
    · cases h
    · split at h
      · cases h
      · split at h
        · cases h
        · simp only [Except.ok.injEq] at h
          subst h; rfl

/-- `CashLetter.Validate()` looks at the bundles only to see whether there are any -/
theorem cashLetterValidate_bundles (m : Model) (cl : CashLetter Vals) (bs : List (Bundle Vals))
    (h : bs.isEmpty = cl.bundles.isEmpty) :
    cashLetterValidate m { cl with bundles := bs } = cashLetterValidate m cl := by
  simp only [cashLetterValidate, h]

theorem fileCashLetters_idem (m : Model) : ∀ (cls cls' : List (CashLetter Vals)), fileCashLetters m cls = .ok cls' →
    fileCashLetters m cls' = .ok cls'
  | [], cls', h => by
    simp only [fileCashLetters, Except.ok.injEq] at h
    subst h; rfl
  | cl :: r, cls', h => by
    simp only [fileCashLetters] at h
    split at h
    · cases h
    · rename_i hv
      split at h
      · cases h
      · rename_i bs hb
        split at h
        · cases h
        · rename_i rs hr
          simp only [Except.ok.injEq] at h
          subst h
          simp only [fileCashLetters]
          rw [cashLetterValidate_bundles m cl bs (fileBundles_isEmpty m _ _ hb)]
          simp only [hv, fileBundles_idem m _ _ hb, fileCashLetters_idem m r rs hr]

theorem fileCashLetters_isEmpty (m : Model) : ∀ (cls cls' : List (CashLetter Vals)), fileCashLetters m cls = .ok cls' →
    cls'.isEmpty = cls.isEmpty
  | [], cls', h => by
    simp only [fileCashLetters, Except.ok.injEq] at h
    subst h; rfl
  | cl :: r, cls', h => by
    simp only [fileCashLetters] at h
    split at h
    · cases h
    · split at h
      · cases h
      · split at h
        · cases h
        · simp only [Except.ok.injEq] at h
          subst h; rfl

/-- the file control a second `File.Create()` computes is the one the first computed -/
theorem fileControlOf_idem (m : Model) (f : File Vals) (cls : List (CashLetter Vals)) :
    fileControlOf m { f with cashLetters := cls, control := fileControlOf m f cls } cls = fileControlOf m f cls := by
  apply Vals.ext' <;> intro k' <;> simp [fileControlOf, Vals.setS, Vals.setI]

/-- **`File.Create()` twice = once**: a file it returned is returned unchanged by a second call -/
theorem fileCreate_idem (m : Model) (f f' : File Vals) (h : fileCreate m f = .ok f') : fileCreate m f' = .ok f' := by
  obtain ⟨cls, hcls, hf'⟩ := fileCreate_ok m f f' h
  subst hf'
  unfold fileCreate at h ⊢
  split at h
  · cases h
  · rename_i h1
    simp only [h1]
    split at h
    · cases h
    · rename_i h2
      have he : cls.isEmpty = false := by
        rw [fileCashLetters_isEmpty m _ _ hcls]; simpa using h2
      simp only [he, Bool.false_eq_true, if_false, fileCashLetters_idem m _ _ hcls]
      rw [hcls] at h
      simp only at h
      have hn : (fileControlOf m f cls).s "ImmediateOriginContactName" = f.control.s "ImmediateOriginContactName" := by
        simp [fileControlOf, Vals.setS, Vals.setI]
      have hp : (fileControlOf m f cls).s "ImmediateOriginContactPhoneNumber" = f.control.s "ImmediateOriginContactPhoneNumber" := by
        simp [fileControlOf, Vals.setS, Vals.setI]
      simp only [hn, hp]
      split at h
      · cases h
      · rename_i h3
        simp only [h3]
        split at h
        · cases h
        · rename_i h4
          simp [h4, fileControlOf_idem]

end Icl.C17
