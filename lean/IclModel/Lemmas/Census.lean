/-
Census of the reader state: which records, under which parents, the reader holds after consuming a
prefix of the input - as a list of places (kind, cash letter, bundle, item), compared by counting with
the places the X9 nesting automaton (Props/C04.lean) assigns to the consumed records.
-/
import IclModel.Tree
namespace Icl.C04
open Icl

/-- coordinates of a record: kind, cash letter, bundle, item (1-based; 0 = none) -/
structure Place where
  kind : Kind
  cl : Nat
  b : Nat
  it : Nat
deriving DecidableEq, Repr

variable {α : Type}

/-- every record an item holds (not only those the writer walk would emit) -/
def itemPlaces (isCheck : Bool) (cl b it : Nat) (i : Item α) : List Place :=
  [⟨if isCheck then .checkDetail else .returnDetail, cl, b, it⟩] ++
  List.replicate i.addA.length ⟨if isCheck then .cdAddA else .rdAddA, cl, b, it⟩ ++
  List.replicate i.addB.length ⟨if isCheck then .cdAddB else .rdAddB, cl, b, it⟩ ++
  List.replicate i.addC.length ⟨if isCheck then .cdAddC else .rdAddC, cl, b, it⟩ ++
  List.replicate i.addD.length ⟨.rdAddD, cl, b, it⟩ ++
  List.replicate i.ivDetail.length ⟨.ivDetail, cl, b, it⟩ ++
  List.replicate i.ivData.length ⟨.ivData, cl, b, it⟩ ++
  List.replicate i.ivAnalysis.length ⟨.ivAnalysis, cl, b, it⟩

/-- items numbered n+1, n+2, … -/
def itemsPlaces (isCheck : Bool) (cl b : Nat) : Nat → List (Item α) → List Place
  | _, [] => []
  | n, i :: r => itemPlaces isCheck cl b (n + 1) i ++ itemsPlaces isCheck cl b (n + 1) r

theorem itemsPlaces_append (isCheck : Bool) (cl b n : Nat) (l : List (Item α)) (x : Item α) :
    itemsPlaces isCheck cl b n (l ++ [x]) = itemsPlaces isCheck cl b n l ++ itemPlaces isCheck cl b (n + l.length + 1) x := by
  induction l generalizing n with
  | nil => simp [itemsPlaces]
  | cons y r ih =>
    simp only [List.cons_append, itemsPlaces, ih, List.length_cons, List.append_assoc]
    congr 3
    omega

/-- a bundle's records: header (when read), items, control (when the bundle is complete) -/
def bundlePlaces (cl b : Nat) (complete : Bool) (bd : Bundle α) : List Place :=
  (if bd.header.isSome then [⟨.bundleHeader, cl, b, 0⟩] else []) ++
  itemsPlaces true cl b 0 bd.checks ++ itemsPlaces false cl b 0 bd.returns ++
  (if complete then [⟨.bundleControl, cl, b, 0⟩] else [])

def bundlesPlaces (cl : Nat) : Nat → List (Bundle α) → List Place
  | _, [] => []
  | n, bd :: r => bundlePlaces cl (n + 1) true bd ++ bundlesPlaces cl (n + 1) r

theorem bundlesPlaces_append (cl n : Nat) (l : List (Bundle α)) (x : Bundle α) :
    bundlesPlaces cl n (l ++ [x]) = bundlesPlaces cl n l ++ bundlePlaces cl (n + l.length + 1) true x := by
  induction l generalizing n with
  | nil => simp [bundlesPlaces]
  | cons y r ih =>
    simp only [List.cons_append, bundlesPlaces, ih, List.length_cons, List.append_assoc]
    congr 3
    omega

/-- a cash letter's records except its open bundle -/
def cashLetterPlaces (cl : Nat) (complete : Bool) (c : CashLetter α) : List Place :=
  (if c.header.isSome then [⟨.cashLetterHeader, cl, 0, 0⟩] else []) ++
  List.replicate c.creditItems.length ⟨.creditItem, cl, 0, 0⟩ ++
  List.replicate c.credits.length ⟨.credit, cl, 0, 0⟩ ++
  List.replicate c.rns.length ⟨.rns, cl, 0, 0⟩ ++
  bundlesPlaces cl 0 c.bundles ++
  (if complete then [⟨.cashLetterControl, cl, 0, 0⟩] else [])

def cashLettersPlaces : Nat → List (CashLetter α) → List Place
  | _, [] => []
  | n, c :: r => cashLetterPlaces (n + 1) true c ++ cashLettersPlaces (n + 1) r

theorem cashLettersPlaces_append (n : Nat) (l : List (CashLetter α)) (x : CashLetter α) :
    cashLettersPlaces n (l ++ [x]) = cashLettersPlaces n l ++ cashLetterPlaces (n + l.length + 1) true x := by
  induction l generalizing n with
  | nil => simp [cashLettersPlaces]
  | cons y r ih =>
    simp only [List.cons_append, cashLettersPlaces, ih, List.length_cons, List.append_assoc]
    congr 3
    omega

/-- the part of the reader state that holds records -/
structure Core where
  cashLetters : List (CashLetter Vals)
  cur : CashLetter Vals
  curBundle : Option (Bundle Vals)

def _root_.Icl.RState.core (s : RState) : Core := ⟨s.cashLetters, s.cur, s.curBundle⟩

/-- the records of the open bundle -/
def openPlaces (c : Core) (cl b : Nat) : List Place :=
  match c.curBundle with
  | some bd => bundlePlaces cl b false bd
  | none => []

/-- the records the reader holds: completed cash letters, the open cash letter, its open bundle -/
def corePlaces (c : Core) : List Place :=
  cashLettersPlaces 0 c.cashLetters ++
  cashLetterPlaces (c.cashLetters.length + 1) false c.cur ++
  openPlaces c (c.cashLetters.length + 1) (c.cur.bundles.length + 1)

def statePlaces (s : RState) : List Place := corePlaces s.core

/-- the records of a returned file below the file level -/
def filePlaces (f : File Vals) : List Place := cashLettersPlaces 0 f.cashLetters

theorem modifyLast_concat {β : Type} (f : β → β) (l : List β) (x : β) : modifyLast f (l ++ [x]) = l ++ [f x] := by
  induction l with
  | nil => rfl
  | cons y r ih =>
    cases r with
    | nil => rfl
    | cons z r' => simp only [List.cons_append, modifyLast] at ih ⊢; rw [ih]

end Icl.C04
