/-
`CashLetter.build` twice = once, under the hypothesis the proof forces: every item sequence number
(supplied or filled) lies in 0..10^15-1, i.e. is a number the 15-column field holds as such.  Outside
that range the property fails on the model and on the code (`build_twice_can_differ`, recorded finding).
-/
import IclModel.Lemmas.Inverse
import IclModel.Lemmas.BuildIdem
namespace Icl.C17
open Icl

theorem natDigits_length_le (k n : Nat) (hk : 0 < k) (h : n < 10 ^ k) : (natDigits n).length ≤ k := by
  induction k generalizing n with
  | zero => omega
  | succ k ih =>
    rw [natDigits]
    split
    · simp
    · rename_i h10
      simp only [List.length_append, List.length_singleton]
      have hk0 : 0 < k := by
        cases k with
        | zero => simp at h; omega
        | succ k => omega
      have : n / 10 < 10 ^ k := by
        rw [Nat.pow_succ] at h
        exact Nat.div_lt_of_lt_mul (by rw [Nat.mul_comm]; exact h)
      have := ih (n / 10) hk0 this
      omega

theorem itoa_length_le15 (n : Int) (h0 : 0 ≤ n) (h : n < 1000000000000000) : (itoa n).length ≤ 15 := by
  have hi : itoa n = natDigits n.natAbs := by
    unfold itoa
    have : ¬ n < 0 := by omega
    simp [this]
  rw [hi]
  exact natDigits_length_le 15 n.natAbs (by omega) (by omega)

theorem natDigits_ne_nil (n : Nat) : natDigits n ≠ [] := by
  rw [natDigits]; split <;> simp

theorem setI_setI_same (v : Vals) (k : String) (x y : Int) : (v.setI k x).setI k y = v.setI k y := by
  apply Vals.ext' <;> intro k' <;> simp [Vals.setI]
  split <;> rfl

theorem zipSet_length (vs : List Vals) (f : Vals → Int → Vals) (ns : List Int) (h : ns.length = vs.length) :
    (zipSet vs f ns).length = vs.length := by
  simp [zipSet, h]

theorem zipSet_idem (f : Vals → Int → Vals) (hf : ∀ v n, f (f v n) n = f v n) :
    ∀ (vs : List Vals) (ns : List Int), zipSet (zipSet vs f ns) f ns = zipSet vs f ns
  | [], ns => by simp [zipSet]
  | v :: vs, [] => by simp [zipSet]
  | v :: vs, n :: ns => by
    have ih := zipSet_idem f hf vs ns
    simp only [zipSet, List.zip_cons_cons, List.map_cons, List.cons.injEq] at ih ⊢
    exact ⟨hf v n, ih⟩

theorem recNums_length (l n : Nat) : (recNums l n).length = n := by simp [recNums]

/-- renumbering the addenda of an item a second time changes nothing -/
theorem zipSet_recNums_idem (f : Vals → Int → Vals) (hf : ∀ v n, f (f v n) n = f v n) (l : Nat) (vs : List Vals) :
    zipSet (zipSet vs f (recNums l vs.length)) f (recNums l (zipSet vs f (recNums l vs.length)).length) =
      zipSet vs f (recNums l vs.length) := by
  rw [zipSet_length vs f _ (recNums_length l vs.length)]
  exact zipSet_idem f hf vs _

/-- the range hypothesis, threaded like the counter of the build loop -/
def CanonSeq (bound : Int) : Int → List (Item Vals) → Prop
  | _, [] => True
  | c, it :: r => 0 ≤ seqOf c it ∧ seqOf c it < bound ∧ CanonSeq bound (seqOf c it + 1) r

theorem seqOf_mk (c : Int) (d : Vals) (a b cc dd v1 v2 v3 : List Vals) :
    seqOf c { detail := d, addA := a, addB := b, addC := cc, addD := dd, ivDetail := v1, ivData := v2, ivAnalysis := v3 } =
      if (d.s "EceInstitutionItemSequenceNumber").isEmpty then c else parseNum (d.s "EceInstitutionItemSequenceNumber") := rfl

theorem setS_get (v : Vals) (k : String) (x : Bytes) : (v.setS k x).s k = x := by simp [Vals.setS]

theorem numericField15_nonempty (seq : Int) : (numericField seq 15).isEmpty = false := by
  have hlen := numericField_length seq 15 (by decide)
  cases hx : numericField seq 15 with
  | nil => rw [hx] at hlen; simp at hlen
  | cons a b => rfl

theorem itoa_nonempty (seq : Int) : (itoa seq).isEmpty = false := by
  unfold itoa
  split
  · rfl
  · cases hx : natDigits seq.natAbs with
    | nil => exact absurd hx (natDigits_ne_nil _)
    | cons a b => rfl

theorem numberChecks_idem : ∀ (items : List (Item Vals)) (c c' : Int), CanonSeq 1000000000000000 c items →
    numberChecks c' (numberChecks c items) = numberChecks c items
  | [], _, _, _ => rfl
  | cd :: r, c, c', h => by
    obtain ⟨h0, h1, hr⟩ := h
    simp only [numberChecks]
    simp only [seqOf_mk, setS_get, numericField15_nonempty, Bool.false_eq_true, if_false]
    rw [parseNum_numericField (seqOf c cd) 15 h0 (by omega) (itoa_length_le15 _ h0 h1) (by decide)]
    simp only [setS_setS_same]
    rw [zipSet_recNums_idem, zipSet_recNums_idem, numberChecks_idem r _ _ hr]
    · intro v n
      apply Vals.ext' <;> intro k' <;> simp [Vals.setS, Vals.setI] <;> (intro a b; exact absurd a b)
    · intro v n
      apply Vals.ext' <;> intro k' <;> simp [Vals.setS, Vals.setI] <;> (intro a b; exact absurd a b)

theorem numberReturns_idem : ∀ (items : List (Item Vals)) (c c' : Int), CanonSeq 9223372036854775808 c items →
    numberReturns c' (numberReturns c items) = numberReturns c items
  | [], _, _, _ => rfl
  | rd :: r, c, c', h => by
    obtain ⟨h0, h1, hr⟩ := h
    simp only [numberReturns]
    simp only [seqOf_mk, setS_get, itoa_nonempty, Bool.false_eq_true, if_false]
    rw [parseNum_itoa (seqOf c rd) h0 h1]
    simp only [setS_setS_same]
    rw [zipSet_recNums_idem, zipSet_recNums_idem, numberReturns_idem r _ _ hr]
    · intro v n
      apply Vals.ext' <;> intro k' <;> simp [Vals.setS, Vals.setI] <;> (intro a b; exact absurd a b)
    · intro v n
      apply Vals.ext' <;> intro k' <;> simp [Vals.setS, Vals.setI] <;> (intro a b; exact absurd a b)



/-- every item sequence number of the bundle, supplied or filled, fits its field -/
def BundleCanon (b : Bundle Vals) : Prop :=
  CanonSeq 1000000000000000 1 b.checks ∧ CanonSeq 9223372036854775808 1 b.returns

theorem buildBundles_ok_cons (m : Model) (n : Nat) (b : Bundle Vals) (r bs' : List (Bundle Vals))
    (h : buildBundles m n (b :: r) = .ok bs') :
    ∃ hd b2 rs, b.header = some hd ∧
      bundleValidate { b with header := some (hd.setS "BundleSequenceNumber" (numericField n 4)), checks := numberChecks 1 b.checks, returns := numberReturns 1 b.returns } = none ∧
      bundleBuild m { b with header := some (hd.setS "BundleSequenceNumber" (numericField n 4)), checks := numberChecks 1 b.checks, returns := numberReturns 1 b.returns } = .ok b2 ∧
      buildBundles m (n + 1) r = .ok rs ∧ bs' = b2 :: rs := by
  simp only [buildBundles] at h
  split at h
  · cases h
  · rename_i hd hh
    split at h
    · cases h
    · rename_i hv
      split at h
      · cases h
      · rename_i b2 hb
        split at h
        · cases h
        · rename_i rs hr
          simp only [Except.ok.injEq] at h
          exact ⟨hd, b2, rs, hh, hv, hb, hr, h.symm⟩

theorem buildBundles_idem (m : Model) : ∀ (n : Nat) (bs bs' : List (Bundle Vals)), (∀ b ∈ bs, BundleCanon b) →
    buildBundles m n bs = .ok bs' → buildBundles m n bs' = .ok bs'
  | n, [], bs', _, h => by
    simp only [buildBundles, Except.ok.injEq] at h
    subst h; rfl
  | n, b :: r, bs', hc, h => by
    obtain ⟨hd, b2, rs, hh, hv, hb, hr, he⟩ := buildBundles_ok_cons m n b r bs' h
    subst he
    have hcb := hc b (by simp)
    have hb2 := bundleBuild_ok m _ b2 hb
    have ih := buildBundles_idem m (n + 1) r rs (fun x hx => hc x (by simp [hx])) hr
    simp only [buildBundles]
    have e1 : b2.header = some (hd.setS "BundleSequenceNumber" (numericField n 4)) := by rw [hb2]
    have e2 : b2.checks = numberChecks 1 b.checks := by rw [hb2]
    have e3 : b2.returns = numberReturns 1 b.returns := by rw [hb2]
    simp only [e1, e2, e3, setS_setS_same, numberChecks_idem _ 1 1 hcb.1, numberReturns_idem _ 1 1 hcb.2]
    have e4 : ({ b2 with header := some (hd.setS "BundleSequenceNumber" (numericField n 4)), checks := numberChecks 1 b.checks, returns := numberReturns 1 b.returns } : Bundle Vals) = b2 := by
      rw [hb2]
    rw [e4]
    have hv2 : bundleValidate b2 = none := by rw [hb2, bundleValidate_control]; exact hv
    simp only [hv2, bundleBuild_idem m _ b2 hb, ih]

theorem buildBundles_headers (m : Model) : ∀ (n : Nat) (bs bs' : List (Bundle Vals)),
    buildBundles m n bs = .ok bs' → bs'.any (fun b => b.header.isNone) = false
  | n, [], bs', h => by
    simp only [buildBundles, Except.ok.injEq] at h
    subst h; rfl
  | n, b :: r, bs', h => by
    obtain ⟨hd, b2, rs, hh, hv, hb, hr, he⟩ := buildBundles_ok_cons m n b r bs' h
    subst he
    have hb2 := bundleBuild_ok m _ b2 hb
    have e1 : b2.header = some (hd.setS "BundleSequenceNumber" (numericField n 4)) := by rw [hb2]
    simp only [List.any_cons, e1, Option.isNone_some, Bool.false_or]
    exact buildBundles_headers m (n + 1) r rs hr

theorem setD_self (v : Vals) (k : String) : v.setD k (v.d k) = v := by
  apply Vals.ext' <;> intro k' <;> simp [Vals.setD]
  intro h; rw [h]

/-- the recounted part of the control `CashLetter.build()` creates -/
def clBase (m : Model) (bs : List (Bundle Vals)) (ci : List Vals) : Vals :=
  let items := bs.flatMap (fun b => b.checks ++ b.returns)
  let c0 := (m.layout .cashLetterControl).new m.now
  let c1 := c0.setI "CashLetterBundleCount" bs.length
  let c2 := c1.setI "CashLetterItemsCount" (items.length + ci.length)
  let c3 := c2.setI "CashLetterTotalAmount" (sumInt (items.map (fun i => i.detail.i "ItemAmount")))
  c3.setI "CashLetterImagesCount" (sumInt (items.map (fun i => (i.ivDetail.length : Int))))

def clName (hd : Vals) (ctl : Option Vals) : Bytes :=
  match ctl with
  | some c => if (c.s "ECEInstitutionName").isEmpty then hd.s "ECEInstitutionRoutingNumber" else c.s "ECEInstitutionName"
  | none => hd.s "ECEInstitutionRoutingNumber"

def clC6 (m : Model) (hd : Vals) (bs : List (Bundle Vals)) (ci : List Vals) (ctl : Option Vals) : Vals :=
  ((clBase m bs ci).setS "ECEInstitutionName" (clName hd ctl)).setI "CreditTotalIndicator" (if ci.isEmpty then 0 else 1)

/-- the control record `CashLetter.build()` creates: recounted totals, caller-settable members kept -/
def clControlOf (m : Model) (hd : Vals) (bs : List (Bundle Vals)) (ci : List Vals) (ctl : Option Vals) : Vals :=
  match ctl with
  | some old =>
    if (old.d "SettlementDate").isZero then (clC6 m hd bs ci ctl).setS "ID" (old.s "ID")
    else ((clC6 m hd bs ci ctl).setS "ID" (old.s "ID")).setD "SettlementDate" (old.d "SettlementDate")
  | none => clC6 m hd bs ci ctl

theorem cashLetterBuild_ok (m : Model) (cl cl' : CashLetter Vals) (h : cashLetterBuild m cl = .ok cl') :
    ∃ hd bs, cl.header = some hd ∧ vErr m .cashLetterHeader hd = none ∧ buildBundles m 1 cl.bundles = .ok bs ∧
      cl' = { cl with bundles := bs, control := some (clControlOf m hd bs cl.creditItems cl.control) } := by
  unfold cashLetterBuild at h
  cases hh : cl.header with
  | none => simp [hh] at h
  | some hd =>
    simp only [hh] at h
    split at h
    · cases h
    · rename_i hv
      split at h
      · cases h
      · split at h
        · cases h
        · rename_i bs hbs
          simp only [Except.ok.injEq] at h
          subst h
          refine ⟨hd, bs, rfl, hv, hbs, ?_⟩
          cases hctl : cl.control with
          | none => rfl
          | some old =>
            simp only [clControlOf, clC6, clBase, clName]

theorem clName_idem (hd : Vals) (ctl : Option Vals) (x : Vals) (hx : x.s "ECEInstitutionName" = clName hd ctl) :
    clName hd (some x) = clName hd ctl := by
  simp only [clName, hx]
  cases ctl with
  | none => simp
  | some c =>
    simp only
    by_cases he : (c.s "ECEInstitutionName").isEmpty = true
    · simp [he]
    · simp [he]

theorem clControlOf_name (m : Model) (hd : Vals) (bs : List (Bundle Vals)) (ci : List Vals) (ctl : Option Vals) :
    (clControlOf m hd bs ci ctl).s "ECEInstitutionName" = clName hd ctl := by
  cases ctl with
  | none => simp [clControlOf, clC6, Vals.setS, Vals.setI]
  | some old =>
    simp only [clControlOf]
    split <;> simp [clC6, Vals.setS, Vals.setI, Vals.setD]

theorem clC6_congr (m : Model) (hd : Vals) (bs : List (Bundle Vals)) (ci : List Vals) (c1 c2 : Option Vals)
    (h : clName hd c1 = clName hd c2) : clC6 m hd bs ci c1 = clC6 m hd bs ci c2 := by
  simp only [clC6, h]

/-- the control a second `CashLetter.build()` computes is the control the first one computed -/
theorem clControlOf_idem (m : Model) (hd : Vals) (bs : List (Bundle Vals)) (ci : List Vals) (ctl : Option Vals) :
    clControlOf m hd bs ci (some (clControlOf m hd bs ci ctl)) = clControlOf m hd bs ci ctl := by
  have hn := clName_idem hd ctl _ (clControlOf_name m hd bs ci ctl)
  have h6 := clC6_congr m hd bs ci _ _ hn
  generalize hX : clControlOf m hd bs ci ctl = X at *
  rw [clControlOf, h6]
  cases ctl with
  | none =>
    simp only [clControlOf] at hX
    rw [hX, setS_self]
    split
    · rfl
    · exact setD_self X _
  | some old =>
    simp only [clControlOf] at hX
    split at hX
    · rename_i hz
      have hid : X.s "ID" = old.s "ID" := by rw [← hX]; simp [Vals.setS]
      rw [hid, hX]
      split
      · rfl
      · exact setD_self X _
    · rename_i hz
      have hid : X.s "ID" = old.s "ID" := by rw [← hX]; simp [Vals.setS, Vals.setD]
      have hsd : X.d "SettlementDate" = old.d "SettlementDate" := by rw [← hX]; simp [Vals.setD]
      rw [hid, hsd]
      simp only [hz]
      exact hX

/-- **`CashLetter.build()` twice = once**, when every item sequence number fits its field -/
theorem cashLetterBuild_idem (m : Model) (cl cl' : CashLetter Vals) (hc : ∀ b ∈ cl.bundles, BundleCanon b)
    (h : cashLetterBuild m cl = .ok cl') : cashLetterBuild m cl' = .ok cl' := by
  obtain ⟨hd, bs, hh, hv, hbs, he⟩ := cashLetterBuild_ok m cl cl' h
  subst he
  have hidem := buildBundles_idem m 1 cl.bundles bs hc hbs
  have hhead := buildBundles_headers m 1 cl.bundles bs hbs
  -- run the second build through the same characterisation
  cases h2 : cashLetterBuild m { cl with bundles := bs, control := some (clControlOf m hd bs cl.creditItems cl.control) } with
  | error e =>
    exfalso
    unfold cashLetterBuild at h2
    simp only [hh, hv, hhead, Bool.false_eq_true, if_false, hidem] at h2
    cases h2
  | ok cl2 =>
    obtain ⟨hd2, bs2, hh2, _, hbs2, he2⟩ := cashLetterBuild_ok m _ cl2 h2
    simp only [hh, Option.some.injEq] at hh2
    subst hh2
    simp only [hidem, Except.ok.injEq] at hbs2
    subst hbs2
    rw [he2]
    simp only [clControlOf_idem]

/-- `CashLetter.Create()` = build, then Validate: twice = once under the same hypothesis -/
theorem cashLetterCreate_idem (m : Model) (cl cl' : CashLetter Vals) (hc : ∀ b ∈ cl.bundles, BundleCanon b)
    (h : cashLetterCreate m cl = .ok cl') : cashLetterCreate m cl' = .ok cl' := by
  unfold cashLetterCreate at h ⊢
  split at h
  · cases h
  · rename_i c hb
    split at h
    · cases h
    · rename_i hv
      simp only [Except.ok.injEq] at h
      subst h
      simp only [cashLetterBuild_idem m cl c hc hb, hv]

end Icl.C17
