/-
Reassembly (C01, tree level): the model reader's step function factors into "decode the record"
(`recParse`: layout-driven parse + the record's own validation) and "attach it to the tree"
(`pushRec`: a small pure function on the record-holding part of the reader state).  `rstep_of_push`:
whenever the record decodes and the push is defined, the step succeeds with exactly that effect and
leaves everything else alone.
-/
import IclModel.Lemmas.CensusStep
namespace Icl.C01
open Icl Icl.C04

/-- the record value each kind is parsed into: a constructor template, or the zero value -/
def tmpl (m : Model) (k : Kind) : Vals :=
  match k with
  | .checkDetail | .returnDetail | .credit | .creditItem => {}
  | k => (m.layout k).new m.now

/-- what the reader parses a record of kind `k` into, given its state -/
def v0For (m : Model) (c : Core) (k : Kind) : Vals :=
  match k with
  | .bundleControl => (c.curBundle.bind (·.control)).getD {}
  | .cashLetterControl => c.cur.control.getD {}
  | k => tmpl m k

/-- the reader's decoding of one record (before it touches the tree) -/
def recParse (m : Model) (e : Enc) (k : Kind) (line : Bytes) (v0 : Vals) : Except String Vals :=
  match k with
  | .ivData => parseValidate m .ivData (if e.ebcdic then m.cm.decode else id) line v0
  | .cdAddA => parseValidate m .cdAddA id ((if e.ebcdic then m.cm.decode else id) (ibm1047 (m.frb && e.ebcdic) line)) v0
  | k => parseValidate m k id ((if e.ebcdic then m.cm.decode else id) line) v0

def lastCheckUpd (c : Core) (f : Item Vals → Item Vals) : Core :=
  ⟨c.cashLetters, c.cur, c.curBundle.map (fun b => { b with checks := modifyLast f b.checks })⟩
def lastReturnUpd (c : Core) (f : Item Vals → Item Vals) : Core :=
  ⟨c.cashLetters, c.cur, c.curBundle.map (fun b => { b with returns := modifyLast f b.returns })⟩

def coreHasChecks (c : Core) : Bool := match c.curBundle with | some b => !b.checks.isEmpty | none => false
def coreHasReturns (c : Core) : Bool := match c.curBundle with | some b => !b.returns.isEmpty | none => false

/-- attach a decoded record of kind `k` to the tree under construction (`none`: out of hierarchy, or the
container it closes does not validate) -/
def pushRec (m : Model) (c : Core) (k : Kind) (v : Vals) : Option Core :=
  match k with
  | .fileHeader | .fileControl => none
  | .cashLetterHeader =>
    if c.cur.header.isSome then none
    else some ⟨c.cashLetters, { header := some v, control := some (tmpl m .cashLetterControl) }, none⟩
  | .bundleHeader =>
    if openB c then none else if c.cur.header.isNone then none
    else some ⟨c.cashLetters, c.cur, some { header := some v, control := some (tmpl m .bundleControl) }⟩
  | .checkDetail =>
    match c.curBundle with
    | none => none
    | some b =>
      if b.header.isNone then none else if !b.returns.isEmpty then none
      else some ⟨c.cashLetters, c.cur, some { b with checks := b.checks ++ [{ detail := v }] }⟩
  | .returnDetail =>
    match c.curBundle with
    | none => none
    | some b =>
      if b.header.isNone then none else if !b.checks.isEmpty then none
      else some ⟨c.cashLetters, c.cur, some { b with returns := b.returns ++ [{ detail := v }] }⟩
  | .cdAddA => if coreHasChecks c then some (lastCheckUpd c (fun it => { it with addA := it.addA ++ [v] })) else none
  | .cdAddB => if coreHasChecks c then some (lastCheckUpd c (fun it => { it with addB := it.addB ++ [v] })) else none
  | .cdAddC => if coreHasChecks c then some (lastCheckUpd c (fun it => { it with addC := it.addC ++ [v] })) else none
  | .rdAddA => if coreHasReturns c then some (lastReturnUpd c (fun it => { it with addA := it.addA ++ [v] })) else none
  | .rdAddB => if coreHasReturns c then some (lastReturnUpd c (fun it => { it with addB := it.addB ++ [v] })) else none
  | .rdAddC => if coreHasReturns c then some (lastReturnUpd c (fun it => { it with addC := it.addC ++ [v] })) else none
  | .rdAddD => if coreHasReturns c then some (lastReturnUpd c (fun it => { it with addD := it.addD ++ [v] })) else none
  | .ivDetail =>
    if coreHasChecks c then some (lastCheckUpd c (fun it => { it with ivDetail := it.ivDetail ++ [v] }))
    else if coreHasReturns c then some (lastReturnUpd c (fun it => { it with ivDetail := it.ivDetail ++ [v] }))
    else none
  | .ivData =>
    if coreHasChecks c then some (lastCheckUpd c (fun it => { it with ivData := it.ivData ++ [v] }))
    else if coreHasReturns c then some (lastReturnUpd c (fun it => { it with ivData := it.ivData ++ [v] }))
    else none
  | .ivAnalysis =>
    if coreHasChecks c then some (lastCheckUpd c (fun it => { it with ivAnalysis := it.ivAnalysis ++ [v] }))
    else if coreHasReturns c then some (lastReturnUpd c (fun it => { it with ivAnalysis := it.ivAnalysis ++ [v] }))
    else none
  | .credit =>
    if c.cur.header.isNone then none
    else some ⟨c.cashLetters, { c.cur with credits := c.cur.credits ++ [v] }, c.curBundle⟩
  | .creditItem =>
    if c.cur.header.isNone then none
    else some ⟨c.cashLetters, { c.cur with creditItems := c.cur.creditItems ++ [v] }, c.curBundle⟩
  | .rns =>
    if c.cur.header.isNone then none
    else some ⟨c.cashLetters, { c.cur with rns := c.cur.rns ++ [some v] }, c.curBundle⟩
  | .bundleControl =>
    match c.curBundle with
    | none => none
    | some b =>
      if b.control.isNone then none
      else if (bundleValidate { b with control := some v }).isSome then none
      else some ⟨c.cashLetters, { c.cur with bundles := c.cur.bundles ++ [{ b with control := some v }] },
                 some { header := none, control := none }⟩
  | .cashLetterControl =>
    if c.cur.header.isNone then none
    else if openB c then none
    else if c.cur.control.isNone then none
    else if (cashLetterValidate m { c.cur with control := some v }).isSome then none
    else some ⟨c.cashLetters ++ [{ c.cur with control := some v }], { header := none, control := none }, none⟩

/-- the parts of the reader state a record below the file level leaves alone -/
def sameOuter (s s' : RState) : Prop :=
  s'.header = s.header ∧ s'.control = s.control ∧ s'.headerUntouched = s.headerUntouched ∧ s'.lineNum = s.lineNum

theorem ok_of_parse {ε : Type} (x : Except String Vals) (v : Vals) (h : x = .ok v) (f : String → ε) :
    (match x with
     | .ok v => (Except.ok v : Except ε Vals)
     | .error e => .error (f e)) = .ok v := by
  subst h; rfl

theorem bool_false_of_not (b : Bool) (h : ¬ b = true) : b = false := by cases b <;> simp_all

theorem hasChecks_core (s : RState) : hasChecks s = coreHasChecks s.core := rfl
theorem hasReturns_core (s : RState) : hasReturns s = coreHasReturns s.core := rfl

set_option hygiene false in
/-- finish a case of `rstep_of_push`: evaluate the step with the collected facts; the error branch is
contradictory, the ok branch yields the state whose core is the pushed one -/
syntax "step_fin" "[" Lean.Parser.Tactic.simpLemma,* "]" : tactic
set_option hygiene false in
macro_rules
  | `(tactic| step_fin [$ts,*]) => `(tactic|
      (cases hr : rstep m e s line with
       | error er => simp only [rstep, hk, bind, Except.bind, pure, Except.pure, Bool.false_eq_true, if_false, if_true, $ts,*] at hr <;> simp_all
       | ok s' =>
         simp only [rstep, hk, bind, Except.bind, pure, Except.pure, Bool.false_eq_true, if_false, if_true, Except.ok.injEq, $ts,*] at hr
         subst hr
         exact ⟨_, rfl, by first | exact hpush | (subst hpush; rfl) | (subst hpush; simp [RState.core, *]), ⟨rfl, rfl, rfl, rfl⟩⟩))

/-- a record that decodes and attaches is accepted by the step function, with exactly that effect -/
theorem rstep_of_push (m : Model) (e : Enc) (s : RState) (line : Bytes) (k : Kind) (v : Vals) (c' : Core)
    (hk : kindOfLine line = some k)
    (hp : recParse m e k line (v0For m s.core k) = .ok v) (hpush : pushRec m s.core k v = some c') :
    ∃ s', rstep m e s line = .ok s' ∧ s'.core = c' ∧ sameOuter s s' := by
  cases k with
  | fileHeader => simp [pushRec] at hpush
  | fileControl => simp [pushRec] at hpush
  | cashLetterHeader =>
    simp only [pushRec] at hpush
    simp only [recParse, v0For, tmpl] at hp
    by_cases hcl : s.core.cur.header.isSome = true
    · simp [hcl] at hpush
    · simp [hcl] at hpush
      have hcl' : s.cur.header.isSome = false := bool_false_of_not _ hcl
      step_fin [hcl', hp, tmpl]
  | bundleHeader =>
    simp only [pushRec] at hpush
    simp only [recParse, v0For, tmpl] at hp
    by_cases hob : openB s.core = true
    · simp [hob] at hpush
    · by_cases hcl : s.core.cur.header.isNone = true
      · simp [hob, hcl] at hpush
      · simp [hob, hcl] at hpush
        have hcl' : s.cur.header.isNone = false := bool_false_of_not _ hcl
        cases hcb : s.curBundle with
        | none => step_fin [hcb, hcl', hp, tmpl]
        | some b =>
          have hb : b.header.isSome = false := by
            have : openB s.core = false := bool_false_of_not _ hob
            simpa [openB, RState.core, hcb] using this
          step_fin [hcb, hb, hcl', hp, tmpl]
  | checkDetail =>
    simp only [pushRec] at hpush
    simp only [recParse, v0For, tmpl] at hp
    cases hcb : s.curBundle with
    | none => simp [RState.core, hcb] at hpush
    | some b =>
      simp only [RState.core, hcb] at hpush
      by_cases hh : b.header.isNone = true
      · simp [hh] at hpush
      · by_cases hr : (!b.returns.isEmpty) = true
        · simp [hh, hr] at hpush
        · simp [hh, hr] at hpush
          have hh' : b.header.isNone = false := bool_false_of_not _ hh
          have hr' : (!b.returns.isEmpty) = false := bool_false_of_not _ hr
          step_fin [hcb, hh', hr', hp]
  | returnDetail =>
    simp only [pushRec] at hpush
    simp only [recParse, v0For, tmpl] at hp
    cases hcb : s.curBundle with
    | none => simp [RState.core, hcb] at hpush
    | some b =>
      simp only [RState.core, hcb] at hpush
      by_cases hh : b.header.isNone = true
      · simp [hh] at hpush
      · by_cases hr : (!b.checks.isEmpty) = true
        · simp [hh, hr] at hpush
        · simp [hh, hr] at hpush
          have hh' : b.header.isNone = false := bool_false_of_not _ hh
          have hr' : (!b.checks.isEmpty) = false := bool_false_of_not _ hr
          step_fin [hcb, hh', hr', hp]
  | cdAddA =>
    simp only [pushRec] at hpush
    simp only [recParse, v0For, tmpl] at hp
    by_cases hc : coreHasChecks s.core = true
    · simp [hc] at hpush
      have hc' : hasChecks { s with recordName := "CheckDetailAddendumA" } = true := hc
      step_fin [hc', hp, Bool.not_true]
    · simp [hc] at hpush
  | cdAddB =>
    simp only [pushRec] at hpush
    simp only [recParse, v0For, tmpl] at hp
    by_cases hc : coreHasChecks s.core = true
    · simp [hc] at hpush
      have hc' : hasChecks { s with recordName := "CheckDetailAddendumB" } = true := hc
      step_fin [hc', hp, Bool.not_true]
    · simp [hc] at hpush
  | cdAddC =>
    simp only [pushRec] at hpush
    simp only [recParse, v0For, tmpl] at hp
    by_cases hc : coreHasChecks s.core = true
    · simp [hc] at hpush
      have hc' : hasChecks { s with recordName := "CheckDetailAddendumC" } = true := hc
      step_fin [hc', hp, Bool.not_true]
    · simp [hc] at hpush
  | rdAddA =>
    simp only [pushRec] at hpush
    simp only [recParse, v0For, tmpl] at hp
    by_cases hc : coreHasReturns s.core = true
    · simp [hc] at hpush
      have hc' : hasReturns { s with recordName := "ReturnDetailAddendumA" } = true := hc
      step_fin [hc', hp, Bool.not_true]
    · simp [hc] at hpush
  | rdAddB =>
    simp only [pushRec] at hpush
    simp only [recParse, v0For, tmpl] at hp
    by_cases hc : coreHasReturns s.core = true
    · simp [hc] at hpush
      have hc' : hasReturns { s with recordName := "ReturnDetailAddendumB" } = true := hc
      step_fin [hc', hp, Bool.not_true]
    · simp [hc] at hpush
  | rdAddC =>
    simp only [pushRec] at hpush
    simp only [recParse, v0For, tmpl] at hp
    by_cases hc : coreHasReturns s.core = true
    · simp [hc] at hpush
      have hc' : hasReturns { s with recordName := "ReturnDetailAddendumC" } = true := hc
      step_fin [hc', hp, Bool.not_true]
    · simp [hc] at hpush
  | rdAddD =>
    simp only [pushRec] at hpush
    simp only [recParse, v0For, tmpl] at hp
    by_cases hc : coreHasReturns s.core = true
    · simp [hc] at hpush
      have hc' : hasReturns { s with recordName := "ReturnDetailAddendumD" } = true := hc
      step_fin [hc', hp, Bool.not_true]
    · simp [hc] at hpush
  | ivDetail =>
    simp only [pushRec] at hpush
    simp only [recParse, v0For, tmpl] at hp
    by_cases hc : coreHasChecks s.core = true
    · simp [hc] at hpush
      have hc' : hasChecks { s with recordName := "ImageViewDetail" } = true := hc
      step_fin [hc', hp]
    · have hcf : hasChecks { s with recordName := "ImageViewDetail" } = false := by
        have : coreHasChecks s.core = false := bool_false_of_not _ hc
        exact this
      by_cases hr : coreHasReturns s.core = true
      · simp [hc, hr] at hpush
        have hr' : hasReturns { s with recordName := "ImageViewDetail" } = true := hr
        step_fin [hcf, hr', hp]
      · simp [hc, hr] at hpush
  | ivData =>
    simp only [pushRec] at hpush
    simp only [recParse, v0For, tmpl] at hp
    by_cases hc : coreHasChecks s.core = true
    · simp [hc] at hpush
      have hc' : hasChecks { s with recordName := "ImageViewData" } = true := hc
      step_fin [hc', hp]
    · have hcf : hasChecks { s with recordName := "ImageViewData" } = false := by
        have : coreHasChecks s.core = false := bool_false_of_not _ hc
        exact this
      by_cases hr : coreHasReturns s.core = true
      · simp [hc, hr] at hpush
        have hr' : hasReturns { s with recordName := "ImageViewData" } = true := hr
        step_fin [hcf, hr', hp]
      · simp [hc, hr] at hpush
  | ivAnalysis =>
    simp only [pushRec] at hpush
    simp only [recParse, v0For, tmpl] at hp
    by_cases hc : coreHasChecks s.core = true
    · simp [hc] at hpush
      have hc' : hasChecks { s with recordName := "ImageViewAnalysis" } = true := hc
      step_fin [hc', hp]
    · have hcf : hasChecks { s with recordName := "ImageViewAnalysis" } = false := by
        have : coreHasChecks s.core = false := bool_false_of_not _ hc
        exact this
      by_cases hr : coreHasReturns s.core = true
      · simp [hc, hr] at hpush
        have hr' : hasReturns { s with recordName := "ImageViewAnalysis" } = true := hr
        step_fin [hcf, hr', hp]
      · simp [hc, hr] at hpush
  | credit =>
    simp only [pushRec] at hpush
    simp only [recParse, v0For, tmpl] at hp
    by_cases hcl : s.core.cur.header.isNone = true
    · simp [hcl] at hpush
    · simp [hcl] at hpush
      have hcl' : s.cur.header.isNone = false := bool_false_of_not _ hcl
      step_fin [hcl', hp]
  | creditItem =>
    simp only [pushRec] at hpush
    simp only [recParse, v0For, tmpl] at hp
    by_cases hcl : s.core.cur.header.isNone = true
    · simp [hcl] at hpush
    · simp [hcl] at hpush
      have hcl' : s.cur.header.isNone = false := bool_false_of_not _ hcl
      step_fin [hcl', hp]
  | rns =>
    simp only [pushRec] at hpush
    simp only [recParse, v0For, tmpl] at hp
    by_cases hcl : s.core.cur.header.isNone = true
    · simp [hcl] at hpush
    · simp [hcl] at hpush
      have hcl' : s.cur.header.isNone = false := bool_false_of_not _ hcl
      step_fin [hcl', hp]
  | bundleControl =>
    simp only [pushRec] at hpush
    cases hcb : s.curBundle with
    | none => simp [RState.core, hcb] at hpush
    | some b =>
      simp only [RState.core, hcb] at hpush
      cases hc0 : b.control with
      | none => simp [hc0] at hpush
      | some c0 =>
        simp only [hc0, Option.isNone_some, Bool.false_eq_true, if_false] at hpush
        simp only [recParse, v0For, RState.core, hcb, Option.bind, hc0, Option.getD] at hp
        cases hv : bundleValidate { b with control := some v } with
        | some f => simp [hv] at hpush
        | none =>
          simp [hv] at hpush
          step_fin [hcb, hc0, hp, hv]
  | cashLetterControl =>
    simp only [pushRec] at hpush
    by_cases hcl : s.core.cur.header.isNone = true
    · simp [hcl] at hpush
    · by_cases hob : openB s.core = true
      · simp [hcl, hob] at hpush
      · cases hc0 : s.cur.control with
        | none => simp [hcl, hob, RState.core, hc0] at hpush
        | some c0 =>
          cases hh : s.cur.header with
          | none => simp [RState.core, hh] at hcl
          | some hd =>
            have hctl : s.core.cur.control.isNone = false := by simp [RState.core, hc0]
            simp only [hcl, hob, hctl, Bool.false_eq_true, if_false] at hpush
            simp only [recParse, v0For, RState.core, hc0, Option.getD] at hp
            cases hv : cashLetterValidate m { s.cur with control := some v } with
            | some f => simp [RState.core, hv] at hpush
            | none =>
              simp [RState.core, hv] at hpush
              have hv2 := hv
              simp only [hh] at hv2
              cases hcb : s.curBundle with
              | none => step_fin [hh, hcb, hc0, hp, hv2]
              | some b =>
                have hb : b.header.isSome = false := by
                  have : openB s.core = false := bool_false_of_not _ hob
                  simpa [openB, RState.core, hcb] using this
                step_fin [hh, hcb, hb, hc0, hp, hv2]

end Icl.C01
