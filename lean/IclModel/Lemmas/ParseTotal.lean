/-
Parse never panics: a decidable symbolic check (`guardOK`) on a regenerated `Parse()` statement list
— every slice `record[lo:hi]` is dominated by a length guard established earlier — and the proof that
it implies that the interpreter `parseStmts` never reaches its `panic` outcome, for every input
string, every record value and every environment.
-/
import IclModel.Layout
namespace Icl

theorem runesFuel_length_le (n : Nat) (s : Bytes) : (runesFuel n s).length ≤ s.length := by
  induction n generalizing s with
  | zero => simp [runesFuel]
  | succ k ih =>
    cases s with
    | nil => simp [runesFuel]
    | cons b r =>
      simp only [runesFuel]
      have hd : ((b :: r).drop (if (decodeRune (b :: r)).2 == 0 then 1 else (decodeRune (b :: r)).2)).length ≤ r.length := by
        simp only [List.length_drop, List.length_cons]
        split
        · omega
        · rename_i h
          have : (decodeRune (b :: r)).2 ≠ 0 := by simpa using h
          omega
      have := ih ((b :: r).drop (if (decodeRune (b :: r)).2 == 0 then 1 else (decodeRune (b :: r)).2))
      simp only [List.length_cons]
      omega

/-- `utf8.RuneCountInString(s) <= len(s)` -/
theorem runeCount_le_length (s : Bytes) : runeCount s ≤ s.length := runesFuel_length_le _ s

/-- symbolic knowledge while walking a Parse body: `len(record) ≥ bound`, and variables known ≥ 0 -/
structure Sym where
  bound : Off := ⟨0, []⟩
  nn : List String := []

def sumVars (e : Env) (vs : List String) : Int := vs.foldl (fun acc k => acc + e.get k) 0

theorem foldl_add_shift (e : Env) (vs : List String) (a : Int) :
    vs.foldl (fun acc k => acc + e.get k) a = a + sumVars e vs := by
  induction vs generalizing a with
  | nil => simp [sumVars]
  | cons x r ih =>
    simp only [List.foldl_cons, sumVars]
    rw [ih (a + e.get x), ih (0 + e.get x)]
    simp only [sumVars]
    omega

theorem Off.eval_eq (o : Off) (e : Env) : o.eval e = (o.c : Int) + sumVars e o.vars := by
  unfold Off.eval; exact foldl_add_shift e o.vars _

theorem sumVars_nonneg (e : Env) (vs nn : List String) (hsub : ∀ x ∈ vs, x ∈ nn) (hnn : ∀ x ∈ nn, 0 ≤ e.get x) :
    0 ≤ sumVars e vs := by
  induction vs with
  | nil => simp [sumVars]
  | cons x r ih =>
    have hx := hnn x (hsub x (by simp))
    have hr := ih (fun y hy => hsub y (by simp [hy]))
    simp only [sumVars, List.foldl_cons] at hr ⊢
    rw [foldl_add_shift]
    simp only [sumVars] at hr ⊢
    omega

theorem sumVars_append (e : Env) (a b : List String) : sumVars e (a ++ b) = sumVars e a + sumVars e b := by
  simp only [sumVars, List.foldl_append]
  rw [foldl_add_shift]
  simp [sumVars]

/-- symbolic `a ≤ b`: smaller constant, `a`'s variables a prefix of `b`'s -/
def Off.sle (a b : Off) : Bool := decide (a.c ≤ b.c) && a.vars.isPrefixOf b.vars

theorem Off.sle_sound (a b : Off) (e : Env) (nn : List String) (h : a.sle b = true)
    (hb : ∀ x ∈ b.vars, x ∈ nn) (hnn : ∀ x ∈ nn, 0 ≤ e.get x) : a.eval e ≤ b.eval e := by
  simp only [Off.sle, Bool.and_eq_true, decide_eq_true_eq] at h
  obtain ⟨hc, hp⟩ := h
  obtain ⟨t, ht⟩ := List.isPrefixOf_iff_prefix.mp hp
  rw [Off.eval_eq, Off.eval_eq, ← ht, sumVars_append]
  have : 0 ≤ sumVars e t := sumVars_nonneg e t nn (fun x hx => hb x (by rw [← ht]; simp [hx])) hnn
  omega

def allIn (vs nn : List String) : Bool := vs.all (fun x => nn.contains x)

/-- every slice is covered by an earlier guard -/
def guardOK : List PStmt → Sym → Bool
  | [], _ => true
  | .guardRunes _ n :: r, s => guardOK r { s with bound := if s.bound.sle ⟨n, []⟩ then ⟨n, []⟩ else s.bound }
  | .guardBytes n :: r, s => guardOK r { s with bound := if s.bound.sle ⟨n, []⟩ then ⟨n, []⟩ else s.bound }
  | .guardVar _ var _ off :: r, s =>
    let nn := var :: s.nn
    guardOK r { bound := if s.bound.sle off && allIn off.vars nn then off else s.bound, nn := nn }
  | .bind var _ :: r, s => !s.nn.contains var && !s.bound.vars.contains var && guardOK r s
  | .assign _ lo hi _ _ :: r, s => lo.sle hi && hi.sle s.bound && allIn hi.vars s.nn && allIn s.bound.vars s.nn && guardOK r s
  | .lit _ _ :: r, s => guardOK r s
  | .setType :: r, s => guardOK r s
  | .opaque :: _, _ => false

/-- what the symbolic state claims about the concrete run -/
def Sym.holds (s : Sym) (e : Env) (record : Bytes) : Prop :=
  s.bound.eval e ≤ (record.length : Int) ∧ (∀ x ∈ s.nn, 0 ≤ e.get x) ∧ (∀ x ∈ s.bound.vars, x ∈ s.nn)

theorem allIn_mem (vs nn : List String) (h : allIn vs nn = true) : ∀ x ∈ vs, x ∈ nn := by
  intro x hx
  simp only [allIn, List.all_eq_true] at h
  simpa using h x hx

theorem Env.get_cons_ne (e : Env) (k k' : String) (x : Int) (h : k' ≠ k) : Env.get ((k', x) :: e) k = e.get k := by
  simp [Env.get, h]

theorem foldl_cons_env (e : Env) (k : String) (x : Int) (vs : List String) (h : ¬ k ∈ vs) (a : Int) :
    vs.foldl (fun acc j => acc + Env.get ((k, x) :: e) j) a = vs.foldl (fun acc j => acc + e.get j) a := by
  induction vs generalizing a with
  | nil => rfl
  | cons y r ih =>
    have hy : k ≠ y := fun hh => h (by simp [hh])
    have hr : ¬ k ∈ r := fun hh => h (by simp [hh])
    simp only [List.foldl_cons, Env.get_cons_ne e y k x hy]
    exact ih hr _

theorem sumVars_cons_env (e : Env) (k : String) (x : Int) (vs : List String) (h : ¬ k ∈ vs) :
    sumVars ((k, x) :: e) vs = sumVars e vs := foldl_cons_env e k x vs h 0

/-- **Parse never panics** when its guards dominate its slices -/
theorem parseStmts_no_panic (dec : Bytes → Bytes) (now : Date) (sty : List SetAct) (record : Bytes)
    (stmts : List PStmt) (s : Sym) (e : Env) (v : Vals)
    (hok : guardOK stmts s = true) (hinv : s.holds e record) :
    ∃ v', parseStmts dec now sty record stmts e v = .done v' := by
  induction stmts generalizing s e v with
  | nil => exact ⟨v, rfl⟩
  | cons st r ih =>
    obtain ⟨hb, hnn, hbv⟩ := hinv
    cases st with
    | guardRunes ne n =>
      simp only [guardOK] at hok
      simp only [parseStmts]
      by_cases hg : (if ne = true then runeCount record ≠ n else runeCount record < n)
      · exact ⟨v, by simp [hg]⟩
      · simp only [hg, if_false]
        apply ih _ e v hok
        by_cases hs : s.bound.sle ⟨n, []⟩ = true
        · simp only [hs, if_true]
          refine ⟨?_, hnn, by simp⟩
          have hrc := runeCount_le_length record
          simp only [Off.eval_eq, sumVars, List.foldl_nil]
          by_cases hne : ne = true
          · simp only [hne, if_true, ne_eq, Decidable.not_not] at hg; omega
          · simp only [hne] at hg; simp at hg; omega
        · simp only [hs]; exact ⟨hb, hnn, hbv⟩
    | guardBytes n =>
      simp only [guardOK] at hok
      simp only [parseStmts]
      by_cases hg : record.length < n
      · exact ⟨v, by simp [hg]⟩
      · simp only [hg, if_false]
        apply ih _ e v hok
        by_cases hs : s.bound.sle ⟨n, []⟩ = true
        · simp only [hs, if_true]
          refine ⟨?_, hnn, by simp⟩
          simp only [Off.eval_eq, sumVars, List.foldl_nil]
          omega
        · simp only [hs]; exact ⟨hb, hnn, hbv⟩
    | guardVar bytes var le0 off =>
      simp only [guardOK] at hok
      simp only [parseStmts]
      by_cases hg : ((if le0 = true then e.get var ≤ 0 else e.get var < 0) ∨
          (if bytes = true then (record.length : Int) else (runeCount record : Int)) < off.eval e)
      · exact ⟨v, by simp [hg]⟩
      · simp only [hg, if_false]
        have hg' := not_or.mp hg
        have hvar : 0 ≤ e.get var := by
          have := hg'.1
          by_cases hl : le0 = true
          · simp only [hl, if_true] at this; omega
          · simp only [hl] at this; simp at this; omega
        have hcnt : off.eval e ≤ (record.length : Int) := by
          have h2 := hg'.2
          have hrc := runeCount_le_length record
          by_cases hbt : bytes = true
          · simp only [hbt, if_true] at h2; omega
          · simp only [hbt] at h2; simp at h2; omega
        apply ih _ e v hok
        have hnn' : ∀ x ∈ var :: s.nn, 0 ≤ e.get x := by
          intro x hx
          cases List.mem_cons.mp hx with
          | inl h => rw [h]; exact hvar
          | inr h => exact hnn x h
        by_cases hs : (s.bound.sle off && allIn off.vars (var :: s.nn)) = true
        · simp only [hs, if_true]
          simp only [Bool.and_eq_true] at hs
          exact ⟨hcnt, hnn', allIn_mem _ _ hs.2⟩
        · simp only [hs]
          exact ⟨hb, hnn', fun x hx => List.mem_cons_of_mem _ (hbv x hx)⟩
    | bind var field =>
      simp only [guardOK, Bool.and_eq_true, Bool.not_eq_true', List.contains_eq_mem, decide_eq_false_iff_not] at hok
      obtain ⟨⟨h1, h2⟩, h3⟩ := hok
      simp only [parseStmts]
      apply ih s _ v h3
      refine ⟨?_, ?_, hbv⟩
      · rw [Off.eval_eq, sumVars_cons_env e var _ _ h2, ← Off.eval_eq]; exact hb
      · intro x hx
        have : var ≠ x := fun hh => h1 (hh ▸ hx)
        rw [Env.get_cons_ne e x var _ this]; exact hnn x hx
    | assign dst lo hi k decode =>
      simp only [guardOK, Bool.and_eq_true] at hok
      obtain ⟨⟨⟨⟨h1, h2⟩, h3⟩, h4⟩, h5⟩ := hok
      simp only [parseStmts]
      have hhi := allIn_mem _ _ h3
      have hlohi := Off.sle_sound lo hi e s.nn h1 hhi hnn
      have hhib := Off.sle_sound hi s.bound e s.nn h2 (allIn_mem _ _ h4) hnn
      have hlo0 : 0 ≤ lo.eval e := by
        rw [Off.eval_eq]
        simp only [Off.sle, Bool.and_eq_true] at h1
        obtain ⟨t, ht⟩ := List.isPrefixOf_iff_prefix.mp h1.2
        have := sumVars_nonneg e lo.vars s.nn (fun x hx => hhi x (by rw [← ht]; simp [hx])) hnn
        omega
      have hcond : 0 ≤ lo.eval e ∧ lo.eval e ≤ hi.eval e ∧ hi.eval e ≤ (record.length : Int) := ⟨hlo0, hlohi, by omega⟩
      simp only [slice?, hcond, and_self, if_true]
      exact ih s e _ h5 ⟨hb, hnn, hbv⟩
    | lit dst b =>
      simp only [guardOK] at hok
      simp only [parseStmts]
      exact ih s e _ hok ⟨hb, hnn, hbv⟩
    | setType =>
      simp only [guardOK] at hok
      simp only [parseStmts]
      exact ih s e _ hok ⟨hb, hnn, hbv⟩
    | «opaque» => simp [guardOK] at hok

/-- the record-level statement: a layout whose Parse passes `guardOK` never panics, on any input -/
theorem parseRec_total (L : RecLayout) (h : guardOK L.parse {} = true) (dec : Bytes → Bytes) (now : Date)
    (record : Bytes) (v0 : Vals) : ∃ v, L.parseRec dec now record v0 = .done v := by
  unfold RecLayout.parseRec
  apply parseStmts_no_panic dec now L.setType record L.parse {} [] v0 h
  refine ⟨?_, by simp, by simp⟩
  simp [Off.eval_eq, sumVars]

end Icl
