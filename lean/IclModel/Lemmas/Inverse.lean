/-
Field-level parse∘format inverses for canonical values: what a getter renders, the matching parse
converter reads back.  Numbers: `parseNum (numericField n w) = n` for 0 ≤ n < 2^63 that fit the width
(Go: `parseNumField(numericField(n, w)) == n`).
-/
import IclModel.Lemmas.Conv
namespace Icl

theorem digit_range (b : UInt8) (h : isDigit b = true) : 48 ≤ b.toNat ∧ b.toNat ≤ 57 := by
  simp only [isDigit, Bool.and_eq_true, decide_eq_true_eq] at h
  exact ⟨UInt8.le_iff_toNat_le.1 h.1, UInt8.le_iff_toNat_le.1 h.2⟩

theorem digit_not_space (b : UInt8) (h : isDigit b = true) : asciiSpace b = false := by
  have hr := digit_range b h
  simp only [asciiSpace, Bool.or_eq_false_iff, beq_eq_false_iff_ne, ne_eq]
  refine ⟨⟨⟨⟨⟨?_, ?_⟩, ?_⟩, ?_⟩, ?_⟩, ?_⟩ <;> (intro hb; subst hb; simp at hr)

theorem strip_digit (b : UInt8) (r : Bytes) (h : isDigit b = true) : stripSpacePrefix (b :: r) = none := by
  have hr := digit_range b h
  unfold stripSpacePrefix
  simp only [digit_not_space b h, Bool.false_eq_true, if_false]
  split <;> first | rfl | (exfalso; simp at hr)

theorem stripRev_digit (b : UInt8) (r : Bytes) (h : isDigit b = true) : stripSpaceSuffixRev (b :: r) = none := by
  have hr := digit_range b h
  unfold stripSpaceSuffixRev
  simp only [digit_not_space b h, Bool.false_eq_true, if_false]
  have h1 : ¬ ((128 : UInt8) ≤ b) := by
    intro hh; have := UInt8.le_iff_toNat_le.1 hh; simp at this; omega
  have e1 : (b == 168) = false := by
    simp only [beq_eq_false_iff_ne, ne_eq]; intro hb; subst hb; simp at hr
  have e2 : (b == 169) = false := by
    simp only [beq_eq_false_iff_ne, ne_eq]; intro hb; subst hb; simp at hr
  have e3 : (b == 175) = false := by
    simp only [beq_eq_false_iff_ne, ne_eq]; intro hb; subst hb; simp at hr
  split <;> first | rfl | (exfalso; simp at hr; done) | simp [h1, e1, e2, e3]

/-- `strings.TrimSpace` leaves a string of digits alone -/
theorem trimSpace_digits (s : Bytes) (h : s.all isDigit = true) : trimSpace s = s := by
  have hl : trimLeft s = s := by
    unfold trimLeft
    cases s with
    | nil => rfl
    | cons b r =>
      simp only [List.all_cons, Bool.and_eq_true] at h
      simp [trimLeftFuel, strip_digit b r h.1]
  unfold trimSpace
  rw [hl]
  unfold trimRight
  cases hrev : s.reverse with
  | nil =>
    have : s = [] := by simpa using hrev
    subst this; rfl
  | cons b r =>
    have hb : isDigit b = true := by
      have hm : b ∈ s := by
        have : b ∈ s.reverse := by rw [hrev]; simp
        simpa using this
      simp only [List.all_eq_true] at h
      exact h b hm
    have hlen : s.length = r.length + 1 := by
      have := congrArg List.length hrev
      simpa using this
    rw [hlen]
    simp only [trimRightRevFuel, stripRev_digit b r hb]
    rw [← hrev, List.reverse_reverse]

def dstep (acc : Nat) (b : UInt8) : Nat := acc * 10 + (b.toNat - 48)

theorem digitsVal_eq (s : Bytes) : digitsVal s = s.foldl dstep 0 := rfl

theorem foldl_dstep_ge (s : Bytes) (a : Nat) : a ≤ s.foldl dstep a := by
  induction s generalizing a with
  | nil => simp
  | cons b r ih =>
    simp only [List.foldl_cons]
    have := ih (dstep a b)
    unfold dstep at this ⊢
    omega

/-- the digit loop of `ParseUint` on a string of digits whose value fits 64 bits -/
theorem scanU_digits (s : Bytes) (a : Nat) (h : s.all isDigit = true) (hb : s.foldl dstep a ≤ maxUint64) :
    scanU s a = .val (s.foldl dstep a) := by
  induction s generalizing a with
  | nil => simp [scanU]
  | cons c r ih =>
    simp only [List.all_cons, Bool.and_eq_true] at h
    simp only [List.foldl_cons] at hb ⊢
    have hge := foldl_dstep_ge r (dstep a c)
    have hstep : dstep a c = a * 10 + (c.toNat - 48) := rfl
    unfold scanU
    simp only [h.1, Bool.not_true, Bool.false_eq_true, if_false]
    have h1 : ¬ (a ≥ maxUint64 / 10 + 1) := by
      unfold maxUint64 at hb ⊢
      omega
    have h2 : ¬ (a * 10 + (c.toNat - 48) > maxUint64) := by
      unfold maxUint64 at hb ⊢
      omega
    simp only [h1, h2, if_false]
    exact ih (dstep a c) h.2 hb

theorem digitByte_toNat (d : Nat) : (digitByte d).toNat = 48 + d % 10 := by
  unfold digitByte
  have : 48 + d % 10 < 256 := by omega
  simp [UInt8.toNat_ofNat, Nat.mod_eq_of_lt this]

theorem digitByte_isDigit (d : Nat) : isDigit (digitByte d) = true := by
  have := digitByte_toNat d
  simp only [isDigit, Bool.and_eq_true, decide_eq_true_eq]
  constructor
  · apply UInt8.le_iff_toNat_le.2; rw [this]; simp
  · apply UInt8.le_iff_toNat_le.2; rw [this]; simp; omega

theorem natDigits_isDigit (n : Nat) : (natDigits n).all isDigit = true := by
  induction n using natDigits.induct with
  | case1 n h => rw [natDigits]; simp [h, digitByte_isDigit]
  | case2 n h ih => rw [natDigits]; simp [h, digitByte_isDigit, ih]

theorem foldl_dstep_natDigits (n : Nat) (a : Nat) :
    (natDigits n).foldl dstep a = a * 10 ^ (natDigits n).length + n := by
  induction n using natDigits.induct generalizing a with
  | case1 n h =>
    rw [natDigits]
    simp only [h, dite_true, List.foldl_cons, List.foldl_nil, List.length_singleton, Nat.pow_one]
    unfold dstep
    rw [digitByte_toNat, Nat.mod_eq_of_lt h]
    omega
  | case2 n h ih =>
    rw [natDigits]
    simp only [h, dite_false, List.foldl_append, List.foldl_cons, List.foldl_nil, List.length_append,
      List.length_singleton, ih]
    unfold dstep
    rw [digitByte_toNat, Nat.pow_succ]
    have : n % 10 % 10 = n % 10 := Nat.mod_mod n 10
    rw [this]
    have hd := Nat.div_add_mod n 10
    generalize 10 ^ (natDigits (n / 10)).length = p at *
    have : (a * p + n / 10) * 10 = a * (p * 10) + (n / 10) * 10 := by
      rw [Nat.add_mul, Nat.mul_assoc]
    omega

theorem foldl_dstep_zeros (k : Nat) (a : Nat) (h : a = 0) : (List.replicate k ZERO).foldl dstep a = 0 := by
  subst h
  induction k with
  | zero => rfl
  | succ k ih => simp only [List.replicate_succ, List.foldl_cons]; exact ih

/-- `strconv.Atoi` on a zero-padded non-negative number below 2^63 -/
theorem atoi_padded (k n : Nat) (hn : n < 9223372036854775808) :
    atoi (List.replicate k ZERO ++ natDigits n) = (n : Int) := by
  have hall : (List.replicate k ZERO ++ natDigits n).all isDigit = true := by
    simp only [List.all_append, Bool.and_eq_true]
    refine ⟨?_, natDigits_isDigit n⟩
    simp only [List.all_eq_true]
    intro x hx
    rw [(List.mem_replicate.1 hx).2]
    decide
  have hval : (List.replicate k ZERO ++ natDigits n).foldl dstep 0 = n := by
    rw [List.foldl_append, foldl_dstep_zeros k 0 rfl, foldl_dstep_natDigits]
    omega
  have hne : (List.replicate k ZERO ++ natDigits n) ≠ [] := by
    intro h
    have := congrArg List.length h
    have hl : 0 < (natDigits n).length := by
      rw [natDigits]; split <;> simp
    simp only [List.length_append, List.length_replicate, List.length_nil] at this
    omega
  -- the first byte is a digit, so neither sign
  cases hs : (List.replicate k ZERO ++ natDigits n) with
  | nil => exact absurd hs hne
  | cons b r =>
    have hb : isDigit b = true := by
      rw [hs] at hall; simp only [List.all_cons, Bool.and_eq_true] at hall; exact hall.1
    have hr := digit_range b hb
    have hscan := scanU_digits (b :: r) 0 (by rw [← hs]; exact hall) (by rw [← hs, hval]; unfold maxUint64; omega)
    rw [← hs, hval] at hscan
    rw [hs] at hscan
    unfold atoi
    have n1 : b ≠ 0x2D := by intro h; subst h; simp at hr
    have n2 : b ≠ 0x2B := by intro h; subst h; simp at hr
    split
    · rename_i heq
      split at heq
      · rename_i r' hh; simp only [List.cons.injEq] at hh; exact absurd hh.1 n1
      · rename_i r' hh; simp only [List.cons.injEq] at hh; exact absurd hh.1 n2
      · simp only [Prod.mk.injEq] at heq
        obtain ⟨h1, h2⟩ := heq
        subst h1 h2
        simp only [List.isEmpty_cons, Bool.false_eq_true, if_false, hscan]
        have : ¬ (n ≥ 9223372036854775808) := by omega
        simp [this]

/-- **numbers read back**: `parseNumField(numericField(n, w)) = n` for 0 ≤ n < 2^63 whose digits fit -/
theorem parseNum_numericField (n : Int) (w : Nat) (h0 : 0 ≤ n) (hmax : n < 9223372036854775808)
    (hfit : (itoa n).length ≤ w) (hw : w < maxGrow) : parseNum (numericField n w) = n := by
  rw [numericField_fit n w hfit hw]
  have hi : itoa n = natDigits n.natAbs := by
    unfold itoa
    have : ¬ n < 0 := by omega
    simp [this]
  rw [hi]
  unfold parseNum
  have hall : (List.replicate (w - (natDigits n.natAbs).length) ZERO ++ natDigits n.natAbs).all isDigit = true := by
    simp only [List.all_append, Bool.and_eq_true]
    refine ⟨?_, natDigits_isDigit _⟩
    simp only [List.all_eq_true]
    intro x hx
    rw [(List.mem_replicate.1 hx).2]
    decide
  rw [trimSpace_digits _ hall, atoi_padded _ _ (by omega)]
  omega

/-- unpadded: `parseNumField(strconv.Itoa(n)) = n` -/
theorem parseNum_itoa (n : Int) (h0 : 0 ≤ n) (hmax : n < 9223372036854775808) : parseNum (itoa n) = n := by
  have hi : itoa n = natDigits n.natAbs := by
    unfold itoa
    have : ¬ n < 0 := by omega
    simp [this]
  rw [hi]
  unfold parseNum
  rw [trimSpace_digits _ (natDigits_isDigit _)]
  have := atoi_padded 0 n.natAbs (by omega)
  simp only [List.replicate_zero, List.nil_append] at this
  rw [this]
  omega

end Icl
