/-
Field-level parse∘format inverses, strings and dates: what a getter renders for a canonical value,
`parseStringField` / `parseYYYYMMDDDate` / `parseSimpleTime` read back.
-/
import IclModel.Lemmas.Inverse
namespace Icl

/-- a byte at which `strings.TrimSpace` stops, from either side: ASCII and not white space -/
def Anchor (b : UInt8) : Prop := b.toNat < 128 ∧ asciiSpace b = false

theorem strip_anchor (b : UInt8) (r : Bytes) (h : Anchor b) : stripSpacePrefix (b :: r) = none := by
  obtain ⟨hr, hs⟩ := h
  unfold stripSpacePrefix
  simp only [hs, Bool.false_eq_true, if_false]
  split <;> first | rfl | (exfalso; simp at hr)

theorem stripRev_anchor (b : UInt8) (r : Bytes) (h : Anchor b) : stripSpaceSuffixRev (b :: r) = none := by
  obtain ⟨hr, hs⟩ := h
  unfold stripSpaceSuffixRev
  simp only [hs, Bool.false_eq_true, if_false]
  have h1 : ¬ ((128 : UInt8) ≤ b) := by
    intro hh; have := UInt8.le_iff_toNat_le.1 hh; simp at this; omega
  have e1 : (b == 168) = false := by
    simp only [beq_eq_false_iff_ne, ne_eq]; intro hb; subst hb; simp at hr
  have e2 : (b == 169) = false := by
    simp only [beq_eq_false_iff_ne, ne_eq]; intro hb; subst hb; simp at hr
  have e3 : (b == 175) = false := by
    simp only [beq_eq_false_iff_ne, ne_eq]; intro hb; subst hb; simp at hr
  split <;> first | rfl | (exfalso; simp at hr; done) | simp [h1, e1, e2, e3]

theorem trimLeftFuel_spaces (k n : Nat) (r : Bytes) (h : k ≤ n) :
    trimLeftFuel n (List.replicate k SP ++ r) = trimLeftFuel (n - k) r := by
  induction k generalizing n with
  | zero => simp
  | succ k ih =>
    cases n with
    | zero => omega
    | succ n =>
      simp only [List.replicate_succ, List.cons_append, trimLeftFuel]
      have : stripSpacePrefix (SP :: (List.replicate k SP ++ r)) = some (List.replicate k SP ++ r) := by
        simp [stripSpacePrefix, asciiSpace, SP]
      rw [this]
      simp only
      rw [ih n (by omega)]
      congr 1
      omega

theorem trimRightRevFuel_spaces (k n : Nat) (r : Bytes) (h : k ≤ n) :
    trimRightRevFuel n (List.replicate k SP ++ r) = trimRightRevFuel (n - k) r := by
  induction k generalizing n with
  | zero => simp
  | succ k ih =>
    cases n with
    | zero => omega
    | succ n =>
      simp only [List.replicate_succ, List.cons_append, trimRightRevFuel]
      have : stripSpaceSuffixRev (SP :: (List.replicate k SP ++ r)) = some (List.replicate k SP ++ r) := by
        simp [stripSpaceSuffixRev, asciiSpace, SP]
      rw [this]
      simp only
      rw [ih n (by omega)]
      congr 1
      omega

theorem trimLeftFuel_stop (n : Nat) (s : Bytes) (h : stripSpacePrefix s = none) : trimLeftFuel n s = s := by
  cases n with
  | zero => rfl
  | succ n => simp [trimLeftFuel, h]

theorem trimRightRevFuel_stop (n : Nat) (s : Bytes) (h : stripSpaceSuffixRev s = none) : trimRightRevFuel n s = s := by
  cases n with
  | zero => rfl
  | succ n => simp [trimRightRevFuel, h]

/-- a value `TrimSpace` leaves alone whatever blanks surround it: empty, or starting and ending in an
ASCII non-space byte -/
def Trimmed (s : Bytes) : Prop :=
  s = [] ∨ (∃ b r, s = b :: r ∧ Anchor b) ∧ (∃ b r, s.reverse = b :: r ∧ Anchor b)

/-- blanks on both sides of a trimmed value are trimmed away, nothing else -/
theorem trimSpace_padded (s : Bytes) (k1 k2 : Nat) (h : Trimmed s) :
    trimSpace (List.replicate k1 SP ++ s ++ List.replicate k2 SP) = s := by
  unfold trimSpace trimLeft
  rcases h with h | ⟨⟨b, r, hs, hb⟩, ⟨b', r', hrev, hb'⟩⟩
  · subst h
    simp only [List.append_nil]
    have : List.replicate k1 SP ++ List.replicate k2 SP = List.replicate (k1 + k2) SP ++ [] := by
      simp [List.replicate_append_replicate]
    rw [this, trimLeftFuel_spaces (k1 + k2) _ [] (by simp)]
    simp [trimLeftFuel, trimRight, trimRightRevFuel]
  · rw [List.append_assoc, trimLeftFuel_spaces k1 _ _ (by simp)]
    rw [trimLeftFuel_stop _ _ (by rw [hs]; exact strip_anchor b _ hb)]
    unfold trimRight
    have hr2 : (s ++ List.replicate k2 SP).reverse = List.replicate k2 SP ++ (b' :: r') := by
      simp [hrev]
    rw [hr2, trimRightRevFuel_spaces k2 _ _ (by simp)]
    rw [trimRightRevFuel_stop _ _ (stripRev_anchor b' r' hb'), ← hrev, List.reverse_reverse]

theorem parseStr_alphaField (s : Bytes) (w : Nat) (h : Trimmed s) (hfit : s.length ≤ w) (hw : w < maxGrow) :
    parseStr (alphaField s w) = s := by
  rw [alphaField_fit s w hfit hw]
  have := trimSpace_padded s 0 (w - s.length) h
  simpa [parseStr] using this

theorem parseStr_nbsmField (s : Bytes) (w : Nat) (h : Trimmed s) (hfit : s.length ≤ w) (hw : w < maxGrow) :
    parseStr (nbsmField s w) = s := by
  rw [nbsmField_fit s w hfit hw]
  have := trimSpace_padded s (w - s.length) 0 h
  simpa [parseStr] using this

end Icl

namespace Icl

theorem digitsW_isDigit (k n : Nat) : (digitsW k n).all isDigit = true := by
  induction k generalizing n with
  | zero => rfl
  | succ k ih => simp [digitsW, ih, digitByte_isDigit]

theorem foldl_dstep_digitsW (k n a : Nat) : (digitsW k n).foldl dstep a = a * 10 ^ k + n % 10 ^ k := by
  induction k generalizing n a with
  | zero => simp [digitsW, Nat.mod_one]
  | succ k ih =>
    simp only [digitsW, List.foldl_append, List.foldl_cons, List.foldl_nil, ih]
    unfold dstep
    rw [digitByte_toNat, Nat.mod_mod, Nat.pow_succ]
    have hm : n % (10 ^ k * 10) = n % 10 + 10 * (n / 10 % 10 ^ k) := by
      rw [Nat.mul_comm (10 ^ k) 10, Nat.mod_mul]
    rw [hm]
    generalize 10 ^ k = p
    generalize n / 10 % p = q
    have : (a * p + q) * 10 = a * (p * 10) + q * 10 := by rw [Nat.add_mul, Nat.mul_assoc]
    omega

theorem digitsVal_digitsW (k n : Nat) (h : n < 10 ^ k) : digitsVal (digitsW k n) = n := by
  rw [digitsVal_eq, foldl_dstep_digitsW, Nat.mod_eq_of_lt h]; simp

theorem digitsW_length' (k n : Nat) : (digitsW k n).length = k := digitsW_length k n

/-- **dates read back**: `parseYYYYMMDDDate(formatYYYYMMDDDate(t)) = t` for every date `time.Parse` can return -/
theorem parseDate_fmtDate (t : Date) (h : t.valid = true) : parseDate (fmtDate t) = t := by
  simp only [Date.valid, Bool.and_eq_true, decide_eq_true_eq] at h
  obtain ⟨⟨⟨⟨hy, hm1⟩, hm2⟩, hd1⟩, hd2⟩ := h
  have hdi : daysIn t.y t.m ≤ 31 := by
    unfold daysIn; split <;> (try split) <;> simp
  unfold parseDate
  have hlen : (fmtDate t).length = 8 := fmtDate_length t
  have hall : (fmtDate t).all isDigit = true := by
    simp [fmtDate, List.all_append, digitsW_isDigit]
  simp only [hlen, hall, beq_self_eq_true, Bool.and_self, if_true]
  have t4 : (fmtDate t).take 4 = digitsW 4 t.y := by
    simp [fmtDate, digitsW_length]
  have d4 : (fmtDate t).drop 4 = digitsW 2 t.m ++ digitsW 2 t.d := by
    simp [fmtDate, digitsW_length]
  have t2 : ((fmtDate t).drop 4).take 2 = digitsW 2 t.m := by
    rw [d4]; simp [digitsW_length]
  have d6 : (fmtDate t).drop 6 = digitsW 2 t.d := by
    have : (fmtDate t).drop 6 = ((fmtDate t).drop 4).drop 2 := by simp
    rw [this, d4]; simp [digitsW_length]
  rw [t4, t2, d6, digitsVal_digitsW 4 t.y (by omega), digitsVal_digitsW 2 t.m (by omega), digitsVal_digitsW 2 t.d (by omega)]
  have hv : (⟨t.y, t.m, t.d⟩ : Date).valid = true := by
    simp [Date.valid, hy, hm1, hm2, hd1, hd2]
  simp [hv]

/-- **times read back** -/
theorem parseTime_fmtTime (t : HM) (h : t.valid = true) (hz : t.z = false) : parseTime (fmtTime t) = t := by
  simp only [HM.valid, Bool.and_eq_true, decide_eq_true_eq] at h
  unfold parseTime
  have hlen : (fmtTime t).length = 4 := fmtTime_length t
  have hall : (fmtTime t).all isDigit = true := by
    simp [fmtTime, List.all_append, digitsW_isDigit]
  simp only [hlen, hall, beq_self_eq_true, Bool.and_self, if_true]
  have t2 : (fmtTime t).take 2 = digitsW 2 t.h := by
    simp [fmtTime, digitsW_length]
  have d2 : (fmtTime t).drop 2 = digitsW 2 t.m := by
    simp [fmtTime, digitsW_length]
  rw [t2, d2, digitsVal_digitsW 2 t.h (by omega), digitsVal_digitsW 2 t.m (by omega)]
  have hv : (⟨t.h, t.m, false⟩ : HM).valid = true := by simp [HM.valid, h.1, h.2]
  simp only [hv, if_true]
  cases t
  simp at hz ⊢
  exact hz

end Icl
