/-
Framing lemmas: length-prefix framing is lossless for arbitrary record bytes; newline framing is
lossless for records that contain no line feed and do not end in a carriage return.
-/
import IclModel.Encoding
namespace Icl

def joinLP (ls : List Bytes) : Bytes := ls.flatMap (fun l => be32 l.length ++ l)
def joinNL (ls : List Bytes) : Bytes := ls.flatMap (fun l => l ++ [0x0A])

theorem be32_length (n : Nat) : (be32 n).length = 4 := by simp [be32]

theorem be32Val_be32 (n : Nat) (h : n < 4294967296) : be32Val (be32 n) = n := by
  simp only [be32, be32Val, UInt8.toNat_ofNat']
  omega

theorem splitLPFuel_join (ls : List Bytes) (fuel : Nat) (hf : ls.length < fuel)
    (h : ∀ l ∈ ls, l.length < 4294967296) : splitLPFuel fuel (joinLP ls) = (ls, true) := by
  induction ls generalizing fuel with
  | nil => cases fuel <;> simp [joinLP, splitLPFuel]
  | cons l r ih =>
    cases fuel with
    | zero => simp at hf
    | succ n =>
      have hl : l.length < 4294967296 := h l (by simp)
      have hr : ∀ x ∈ r, x.length < 4294967296 := fun x hx => h x (by simp [hx])
      have hjoin : joinLP (l :: r) = be32 l.length ++ (l ++ joinLP r) := by simp [joinLP]
      rw [hjoin]
      have hne : be32 l.length ++ (l ++ joinLP r) ≠ [] := by simp [be32]
      have htake : (be32 l.length ++ (l ++ joinLP r)).take 4 = be32 l.length := by
        rw [List.take_append_of_le_length (by simp [be32_length])]
        simp [List.take_of_length_le, be32_length]
      have hdrop4 : (be32 l.length ++ (l ++ joinLP r)).drop 4 = l ++ joinLP r := by
        rw [List.drop_append_of_le_length (by simp [be32_length])]
        simp [List.drop_of_length_le, be32_length]
      have hlen : (be32 l.length ++ (l ++ joinLP r)).length = 4 + l.length + (joinLP r).length := by
        simp [be32_length]; omega
      cases hcase : be32 l.length ++ (l ++ joinLP r) with
      | nil => exact absurd hcase hne
      | cons b t =>
        rw [← hcase]
        unfold splitLPFuel
        rw [hcase]
        simp only []
        rw [← hcase]
        have h1 : ¬ (be32 l.length ++ (l ++ joinLP r)).length < 4 := by rw [hlen]; omega
        simp only [h1, if_false, htake, be32Val_be32 _ hl]
        have h2 : 4 + l.length ≤ (be32 l.length ++ (l ++ joinLP r)).length := by rw [hlen]; omega
        simp only [h2, if_true]
        have hdrop : (be32 l.length ++ (l ++ joinLP r)).drop (4 + l.length) = joinLP r := by
          rw [← List.drop_drop, hdrop4]; simp
        rw [hdrop, hdrop4, ih n (by simpa using hf) hr]
        simp

/-- **length-prefix framing is lossless** for any record bytes (binary included) -/
theorem splitLP_joinLP (ls : List Bytes) (h : ∀ l ∈ ls, l.length < 4294967296) :
    splitLP (joinLP ls) = (ls, true) := by
  unfold splitLP
  apply splitLPFuel_join ls _ _ h
  have : ls.length ≤ (joinLP ls).length := by
    induction ls with
    | nil => simp
    | cons l r ih =>
      have hr : ∀ x ∈ r, x.length < 4294967296 := fun x hx => h x (by simp [hx])
      have := ih hr
      simp [joinLP, be32_length] at this ⊢; omega
  omega

/-! ### newline framing -/

theorem splitNLAux_line (l rest acc : Bytes) (hno : (0x0A : UInt8) ∉ l) :
    splitNLAux (l ++ 0x0A :: rest) acc = dropCR (acc.reverse ++ l) :: splitNLAux rest [] := by
  induction l generalizing acc with
  | nil => simp [splitNLAux]
  | cons b l ih =>
    have hb : b ≠ 0x0A := fun h => hno (by simp [h])
    have hl : (0x0A : UInt8) ∉ l := fun h => hno (by simp [h])
    have : splitNLAux (b :: (l ++ 0x0A :: rest)) acc = splitNLAux (l ++ 0x0A :: rest) (b :: acc) := by
      rw [splitNLAux]
      intro h; exact absurd h hb
    simp only [List.cons_append, this, ih (b :: acc) hl]
    simp [List.append_assoc]

theorem splitNL_joinNL (ls : List Bytes) (hno : ∀ l ∈ ls, (0x0A : UInt8) ∉ l) :
    splitNL (joinNL ls) = ls.map dropCR := by
  unfold splitNL
  induction ls with
  | nil => simp [joinNL, splitNLAux]
  | cons l ls ih =>
    have : joinNL (l :: ls) = l ++ 0x0A :: joinNL ls := by simp [joinNL]
    rw [this, splitNLAux_line l _ [] (hno l (by simp))]
    simp [ih (fun x hx => hno x (by simp [hx]))]

end Icl
