/-
Reader-level relaxation (C19): if model `m1` differs from `m0` only in that its record validator
accepts at least what `m0`'s accepts, with the same resulting record, and in the IBM1047 byte
substitution that `m0` never applies, then every input `m0` reads without error is read by `m1`
without error into the same file.

The proof goes through the factoring of the reader step: `push_of_rstep` (an accepted record was
decoded and attached), relaxation of decoding and of attaching, `rstep_of_push` (a record that decodes
and attaches is accepted with exactly that effect).  The two runs are related by `Eqv`: the same tree
under construction and the same file-level slots (the record name and the scratch routing number
summary only feed error reports).
-/
import IclModel.Lemmas.Sound
namespace Icl.C19
open Icl Icl.C04 Icl.C01

/-- `m1` is `m0` with a validator that accepts at least as much, with the same outcome; `m0` applies no
byte substitution -/
structure Relaxes (m0 m1 : Model) : Prop where
  layouts : m1.layouts = m0.layouts
  cm : m1.cm = m0.cm
  now : m1.now = m0.now
  frb0 : m0.frb = false
  val : ∀ (k : Kind) (v v' : Vals), m0.validateK k v = (none, v') → m1.validateK k v = (none, v')

variable {m0 m1 : Model}

theorem Relaxes.layout (hR : Relaxes m0 m1) (k : Kind) : m1.layout k = m0.layout k := by
  simp [Model.layout, hR.layouts]

theorem Relaxes.tmpl (hR : Relaxes m0 m1) (k : Kind) : tmpl m1 k = tmpl m0 k := by
  cases k <;> simp [C01.tmpl, hR.layout, hR.now]

theorem Relaxes.v0For (hR : Relaxes m0 m1) (c : Core) (k : Kind) : v0For m1 c k = v0For m0 c k := by
  cases k <;> simp [C01.v0For, hR.tmpl]

theorem Relaxes.parseValidate (hR : Relaxes m0 m1) (k : Kind) (dec : Bytes → Bytes) (ln : Bytes) (v0 v : Vals)
    (h : parseValidate m0 k dec ln v0 = .ok v) : parseValidate m1 k dec ln v0 = .ok v := by
  simp only [Icl.parseValidate, hR.layout, hR.now] at h ⊢
  cases hp : (m0.layout k).parseRec dec m0.now ln v0 with
  | panic => simp [hp] at h
  | done w =>
    simp only [hp] at h ⊢
    cases hv : m0.validateK k w with
    | mk a b =>
      cases a with
      | some f => simp [hv] at h
      | none =>
        simp only [hv, Except.ok.injEq] at h
        subst h
        rw [hR.val k w b hv]

/-- the byte substitution is the identity on `line` whenever `m1` would apply it -/
def NoSubst (m1 : Model) (e : Enc) (line : Bytes) : Prop :=
  kindOfLine line = some .cdAddA → m1.frb = true → e.ebcdic = true → ibm1047 true line = line

theorem noSubst_ascii (m1 : Model) (e : Enc) (he : e.ebcdic = false) (line : Bytes) : NoSubst m1 e line := by
  intro _ _ h; rw [he] at h; cases h

theorem Relaxes.recParse (hR : Relaxes m0 m1) (e : Enc) (k : Kind) (line : Bytes) (v0 v : Vals)
    (hk : kindOfLine line = some k) (hs : NoSubst m1 e line)
    (h : recParse m0 e k line v0 = .ok v) : recParse m1 e k line v0 = .ok v := by
  cases k with
  | cdAddA =>
    simp only [C01.recParse, hR.frb0, Bool.false_and, ibm1047, Bool.false_eq_true, if_false, hR.cm] at h ⊢
    have : (if (m1.frb && e.ebcdic) = true then
        line.map (fun b => if b == 0xAD then 0xBA else if b == 0xBD then 0xBB else if b == 0x5F then 0xB0 else b)
      else line) = line := by
      split
      · rename_i hc
        simp only [Bool.and_eq_true] at hc
        have := hs hk hc.1 hc.2
        simpa [ibm1047] using this
      · rfl
    rw [this]
    exact hR.parseValidate _ _ _ _ _ h
  | ivData => simp only [C01.recParse, hR.cm] at h ⊢; exact hR.parseValidate _ _ _ _ _ h
  | _ => simp only [C01.recParse, hR.cm] at h ⊢; exact hR.parseValidate _ _ _ _ _ h

theorem Relaxes.cashLetterValidate (hR : Relaxes m0 m1) (cl : CashLetter Vals)
    (h : cashLetterValidate m0 cl = none) : cashLetterValidate m1 cl = none := by
  unfold Icl.cashLetterValidate at h ⊢
  cases hh : cl.header with
  | none => simp [hh] at h
  | some hd =>
    simp only [hh] at h ⊢
    split at h
    · simp at h
    · rename_i h1
      split at h
      · simp at h
      · rename_i h2
        simp only [h1, h2]
        cases hc : cl.control with
        | none => simp [hc] at h
        | some c =>
          simp only [hc] at h ⊢
          cases hv : m0.validateK .cashLetterControl c with
          | mk a b =>
            cases a with
            | some f => simp [hv] at h
            | none => rw [hR.val _ _ _ hv]; simp

theorem Relaxes.pushRec (hR : Relaxes m0 m1) (c c' : Core) (k : Kind) (v : Vals)
    (h : pushRec m0 c k v = some c') : pushRec m1 c k v = some c' := by
  cases k with
  | cashLetterControl =>
    simp only [C01.pushRec] at h ⊢
    split at h
    · simp at h
    · rename_i h1
      split at h
      · simp at h
      · rename_i h2
        simp only [h1, h2]
        cases hv : Icl.cashLetterValidate m0 { c.cur with control := some v } with
        | some x => simp [hv] at h
        | none =>
          simp only [hv] at h
          simp only [hR.cashLetterValidate _ hv]
          exact h
  | _ => simpa only [C01.pushRec, hR.tmpl] using h

/-- the two runs agree on everything the result and the control flow depend on -/
def Eqv (s t : RState) : Prop := t.core = s.core ∧ sameOuter s t

theorem Eqv.refl (s : RState) : Eqv s s := ⟨rfl, rfl, rfl, rfl, rfl⟩

theorem inner_or (k : Kind) : inner k = true ∨ k = .fileHeader ∨ k = .fileControl := by
  cases k <;> simp [inner]

/-- one accepted record: the relaxed reader accepts it too, with the same effect -/
theorem Relaxes.rstep (hR : Relaxes m0 m1) (e : Enc) (s s' t : RState) (line : Bytes) (hs : NoSubst m1 e line)
    (hst : Eqv s t) (h : rstep m0 e s line = .ok s') : ∃ t', rstep m1 e t line = .ok t' ∧ Eqv s' t' := by
  cases hk : kindOfLine line with
  | none => simp [Icl.rstep, hk] at h
  | some k =>
    rcases inner_or k with hin | hfh | hfc
    · obtain ⟨v, hp, hpush, ho⟩ := push_of_rstep m0 e s s' line k hk hin h
      have hp1 : C01.recParse m1 e k line (C01.v0For m1 t.core k) = .ok v := by
        rw [hR.v0For, hst.1]; exact hR.recParse e k line _ v hk hs hp
      have hpush1 : C01.pushRec m1 t.core k v = some s'.core := by rw [hst.1]; exact hR.pushRec _ _ k v hpush
      obtain ⟨t', ht, hc, ho'⟩ := rstep_of_push m1 e t line k v s'.core hk hp1 hpush1
      refine ⟨t', ht, hc, ?_⟩
      obtain ⟨a1, a2, a3, a4⟩ := ho
      obtain ⟨b1, b2, b3, b4⟩ := ho'
      obtain ⟨_, c1, c2, c3, c4⟩ := hst
      exact ⟨by rw [b1, c1, a1], by rw [b2, c2, a2], by rw [b3, c3, a3], by rw [b4, c4, a4]⟩
    · subst hfh
      obtain ⟨hcore, c1, c2, c3, c4⟩ := hst
      simp only [Icl.rstep, hk, hR.layout, hR.now, hR.cm, c1] at h ⊢
      cases hp : (m0.layout .fileHeader).parseRec id m0.now ((if e.ebcdic = true then m0.cm.decode else id) line) s.header with
      | panic => simp [hp] at h
      | done w =>
        simp only [hp] at h ⊢
        cases hv : m0.validateK .fileHeader w with
        | mk a b =>
          cases a with
          | some f => simp [hv] at h
          | none =>
            simp only [hv, Except.ok.injEq] at h
            subst h
            rw [hR.val _ _ _ hv]
            refine ⟨_, rfl, ?_, ?_⟩
            · simpa [RState.core] using hcore
            · exact ⟨rfl, c2, by simp [c3], c4⟩
    · subst hfc
      obtain ⟨hcore, c1, c2, c3, c4⟩ := hst
      have hcur : t.cur = s.cur := by
        have := congrArg Core.cur hcore
        simpa [RState.core] using this
      simp only [Icl.rstep, hk, hR.layout, hR.now, hR.cm, c2, hcur] at h ⊢
      split at h
      · simp at h
      · rename_i h1
        split at h
        · simp at h
        · rename_i h2
          simp only [h1, h2]
          cases hp : (m0.layout .fileControl).parseRec id m0.now ((if e.ebcdic = true then m0.cm.decode else id) line) s.control with
          | panic => simp [hp] at h
          | done w =>
            simp only [hp] at h ⊢
            cases hv : m0.validateK .fileControl w with
            | mk a b =>
              cases a with
              | some f => simp [hv] at h
              | none =>
                simp only [hv, Except.ok.injEq] at h
                subst h
                rw [hR.val _ _ _ hv]
                refine ⟨_, rfl, ?_, ?_⟩
                · simp only [RState.core, Core.mk.injEq] at hcore ⊢
                  exact ⟨hcore.1, trivial, hcore.2.2⟩
                · exact ⟨c1, rfl, c3, c4⟩

theorem Relaxes.minLen (hR : Relaxes m0 m1) (e : Enc) (l : Bytes) : minLen m1 e l = minLen m0 e l := by
  simp [Icl.minLen, hR.cm]

/-- the record loop: an error-free run with `m0` is an error-free run with `m1`, related states -/
theorem Relaxes.readLines (hR : Relaxes m0 m1) (e : Enc) (ls : List Bytes) (hs : ∀ l ∈ ls, NoSubst m1 e l)
    (s sf t : RState) (hst : Eqv s t) (h : readLines m0 e ls s = (sf, none)) :
    ∃ tf, readLines m1 e ls t = (tf, none) ∧ Eqv sf tf := by
  induction ls generalizing s t with
  | nil =>
    simp only [Icl.readLines, Prod.mk.injEq, and_true] at h
    subst h
    exact ⟨t, rfl, hst⟩
  | cons l r ih =>
    simp only [Icl.readLines, hR.minLen] at h ⊢
    split at h
    · simp at h
    · rename_i hlen
      simp only [hlen, if_false]
      have hst1 : Eqv { s with lineNum := s.lineNum + 1 } { t with lineNum := t.lineNum + 1 } := by
        obtain ⟨hc, c1, c2, c3, c4⟩ := hst
        exact ⟨hc, c1, c2, c3, by show t.lineNum + 1 = s.lineNum + 1; rw [c4]⟩
      cases hr : Icl.rstep m0 e { s with lineNum := s.lineNum + 1 } l with
      | error x => simp [hr] at h
      | ok s' =>
        simp only [hr] at h
        obtain ⟨t', ht, hst'⟩ := hR.rstep e _ s' _ l (hs l (by simp)) hst1 hr
        simp only [ht]
        exact ih (fun l' hl' => hs l' (by simp [hl'])) s' t' hst' h

end Icl.C19
