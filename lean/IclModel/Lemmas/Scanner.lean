/-
Chunk independence of the scanner model: for a split function that is stable under extension of
its input (`SplitOK`), the token stream produced by `scan` over ANY chunk schedule equals the
whole-input reference `refScan`, unless the buffer bound is hit.
-/
import IclModel.Scanner
namespace Icl

structure SplitOK (split : SplitFn) : Prop where
  /-- a token found before EOF is found identically once more data has arrived -/
  stable_tok : ∀ d e adv t, split d false = (adv, some t, none) → split (d ++ e) false = (adv, some t, none)
  /-- an error reported before EOF is reported identically once more data has arrived -/
  stable_err : ∀ d e adv tok er, split d false = (adv, tok, some er) → split (d ++ e) false = (adv, tok, some er)
  /-- a skip (advance without token) before EOF is stable as well -/
  stable_skip : ∀ d e adv, adv ≠ 0 → split d false = (adv, none, none) → split (d ++ e) false = (adv, none, none)
  /-- bufio's contract: never advance beyond the data given -/
  adv_le : ∀ d b adv tok, split d b = (adv, tok, none) → adv ≤ d.length
  /-- a token found before EOF consumes something -/
  tok_progress : ∀ d adv t, split d false = (adv, some t, none) → adv ≠ 0

theorem drain_fuel (split : SplitFn) (f1 f2 : Nat) (p : Bytes) (h1 : p.length < f1) (h2 : p.length < f2) :
    drain split f1 p = drain split f2 p := by
  induction f1 generalizing f2 p with
  | zero => omega
  | succ n ih =>
    cases f2 with
    | zero => omega
    | succ m =>
      simp only [drain]
      split
      · rfl
      · rename_i adv t _
        split
        · rfl
        · rename_i hh
          have hl : (p.drop adv).length < n := by simp [List.length_drop]; omega
          have hl2 : (p.drop adv).length < m := by simp [List.length_drop]; omega
          rw [ih m (p.drop adv) hl hl2]
      · rename_i adv _
        split
        · rfl
        · split
          · rfl
          · have hl : (p.drop adv).length < n := by simp [List.length_drop]; omega
            have hl2 : (p.drop adv).length < m := by simp [List.length_drop]; omega
            exact ih m (p.drop adv) hl hl2

def drainAll (split : SplitFn) (p : Bytes) : List Bytes × Bytes × Option SErr := drain split (p.length + 1) p

theorem drainAll_err (split : SplitFn) (p : Bytes) (adv : Nat) (tok : Option Bytes) (e : SErr)
    (h : split p false = (adv, tok, some e)) : drainAll split p = ([], p, some e) := by
  unfold drainAll; rw [drain]; simp [h]

theorem drainAll_tok (split : SplitFn) (p : Bytes) (adv : Nat) (t : Bytes)
    (h : split p false = (adv, some t, none)) (h0 : adv ≠ 0) (hle : adv ≤ p.length) :
    drainAll split p = (t :: (drainAll split (p.drop adv)).1, (drainAll split (p.drop adv)).2.1,
      (drainAll split (p.drop adv)).2.2) := by
  unfold drainAll; rw [drain]
  have hb : ¬ (adv = 0 ∨ p.length < adv) := by omega
  simp only [h, hb, if_false]
  have hl : (p.drop adv).length < p.length := by simp [List.length_drop]; omega
  rw [drain_fuel split p.length ((p.drop adv).length + 1) (p.drop adv) hl (by omega)]

theorem drainAll_wait (split : SplitFn) (p : Bytes) (h : split p false = (0, none, none)) :
    drainAll split p = ([], p, none) := by
  unfold drainAll; rw [drain]; simp [h]

theorem drainAll_skip (split : SplitFn) (p : Bytes) (adv : Nat)
    (h : split p false = (adv, none, none)) (h0 : adv ≠ 0) (hle : adv ≤ p.length) :
    drainAll split p = drainAll split (p.drop adv) := by
  unfold drainAll; rw [drain]
  have hb : ¬ p.length < adv := by omega
  simp only [h, h0, hb, if_false]
  have hl : (p.drop adv).length < p.length := by simp [List.length_drop]; omega
  exact drain_fuel split p.length ((p.drop adv).length + 1) (p.drop adv) hl (by omega)

/-- **tokens found in a prefix are the first tokens of the whole**: draining `p ++ r` is draining `p`
and then draining what `p` left over together with `r` -/
theorem drainAll_append (split : SplitFn) (hs : SplitOK split) (p r : Bytes) :
    ((drainAll split p).2.2 = none →
      drainAll split (p ++ r) =
        ((drainAll split p).1 ++ (drainAll split ((drainAll split p).2.1 ++ r)).1,
         (drainAll split ((drainAll split p).2.1 ++ r)).2.1,
         (drainAll split ((drainAll split p).2.1 ++ r)).2.2)) ∧
    (∀ e, (drainAll split p).2.2 = some e →
      (drainAll split (p ++ r)).1 = (drainAll split p).1 ∧ (drainAll split (p ++ r)).2.2 = some e) := by
  induction hn : p.length using Nat.strongRecOn generalizing p with
  | _ n ih =>
    rcases hsp : split p false with ⟨adv, tok, er⟩
    cases er with
    | some e =>
      rw [drainAll_err split p adv tok e hsp, drainAll_err split (p ++ r) adv tok e (hs.stable_err p r adv tok e hsp)]
      simp
    | none =>
      have hle : adv ≤ p.length := hs.adv_le p false adv tok hsp
      have hdrop : (p ++ r).drop adv = p.drop adv ++ r := List.drop_append_of_le_length hle
      cases tok with
      | some t =>
        have h0 := hs.tok_progress p adv t hsp
        rw [drainAll_tok split p adv t hsp h0 hle,
          drainAll_tok split (p ++ r) adv t (hs.stable_tok p r adv t hsp) h0 (by simp; omega), hdrop]
        have hl : (p.drop adv).length < n := by simp [List.length_drop]; omega
        have := ih (p.drop adv).length hl (p.drop adv) rfl
        constructor
        · intro h
          rw [this.1 h]; simp
        · intro e he
          have := this.2 e he
          simp [this.1, this.2]
      | none =>
        by_cases h0 : adv = 0
        · subst h0
          rw [drainAll_wait split p hsp]
          simp
        · rw [drainAll_skip split p adv hsp h0 hle,
            drainAll_skip split (p ++ r) adv (hs.stable_skip p r adv h0 hsp) h0 (by simp; omega), hdrop]
          have hl : (p.drop adv).length < n := by simp [List.length_drop]; omega
          exact ih (p.drop adv).length hl (p.drop adv) rfl

theorem refScan_eq (split : SplitFn) (x : Bytes) :
    refScan split x =
      match (drainAll split x).2.2 with
      | some e => ((drainAll split x).1, some e)
      | none => ((drainAll split x).1 ++ (finish split ((drainAll split x).2.1.length + 1) (drainAll split x).2.1).1,
                 (finish split ((drainAll split x).2.1.length + 1) (drainAll split x).2.1).2) := rfl

/-- the reference over `p ++ r` in terms of what draining `p` alone gives -/
theorem refScan_append (split : SplitFn) (hs : SplitOK split) (p r : Bytes) :
    ((drainAll split p).2.2 = none →
      refScan split (p ++ r) = ((drainAll split p).1 ++ (refScan split ((drainAll split p).2.1 ++ r)).1,
                                 (refScan split ((drainAll split p).2.1 ++ r)).2)) ∧
    (∀ e, (drainAll split p).2.2 = some e → refScan split (p ++ r) = ((drainAll split p).1, some e)) := by
  have hd := drainAll_append split hs p r
  constructor
  · intro h
    rw [refScan_eq split (p ++ r), refScan_eq split ((drainAll split p).2.1 ++ r), hd.1 h]
    cases (drainAll split ((drainAll split p).2.1 ++ r)).2.2 <;> simp
  · intro e he
    rw [refScan_eq split (p ++ r)]
    have := hd.2 e he
    simp [this.1, this.2]

/-- **chunk independence**: over any schedule of reads (zero-length reads included) and any buffer
bound, the scanner yields exactly the whole-input reference — or reports ErrTooLong -/
theorem scan_eq_ref (split : SplitFn) (hs : SplitOK split) (max : Nat) (sched : List Nat) (p r : Bytes) :
    scan split max sched p r = refScan split (p ++ r) ∨ (scan split max sched p r).2 = some .tooLong := by
  induction hm : sched.length + r.length using Nat.strongRecOn generalizing sched p r with
  | _ n ih =>
    rw [scan.eq_def]
    simp only []
    have hda : drain split (p.length + 1) p = drainAll split p := rfl
    rw [hda]
    have hra := refScan_append split hs p r
    rcases hd : drainAll split p with ⟨ts, p', er⟩
    rw [hd] at hra
    simp only [] at hra
    cases er with
    | some e =>
      left
      simp only []
      rw [hra.2 e rfl]
    | none =>
      simp only []
      by_cases hmax : max ≤ p'.length
      · right; simp [hmax]
      · simp only [hmax, dite_false]
        by_cases hr : r.isEmpty = true
        · left
          have : r = [] := by simpa using hr
          subst this
          simp only [List.isEmpty_nil, if_true, List.append_nil]
          rw [refScan_eq split p, hd]
        · simp only [hr, if_false]
          have hrl : 0 < r.length := by
            cases r with
            | nil => simp at hr
            | cons _ _ => simp
          cases sched with
          | nil =>
            simp only []
            have := ih (0 + (r.drop (max - p'.length)).length)
              (by simp only [List.length_nil, List.length_drop] at hm ⊢; omega) []
              (p' ++ r.take (max - p'.length)) (r.drop (max - p'.length)) (by simp)
            rcases this with h | h
            · left
              rw [h, (hra.1 rfl)]
              simp [List.append_assoc]
            · right; simpa using h
          | cons k s' =>
            simp only []
            have := ih (s'.length + (r.drop (min k (max - p'.length))).length)
              (by simp at hm ⊢; omega) s'
              (p' ++ r.take (min k (max - p'.length))) (r.drop (min k (max - p'.length))) rfl
            rcases this with h | h
            · left
              rw [h, (hra.1 rfl)]
              simp [List.append_assoc]
            · right; simpa using h

/-- corollary in the form of the property: any two deliveries of the same bytes, with any two buffer
bounds, give the same tokens and the same error — unless one of them hit its buffer bound -/
theorem chunk_independent (split : SplitFn) (hs : SplitOK split) (x : Bytes) (m1 m2 : Nat) (s1 s2 : List Nat)
    (h1 : (scan split m1 s1 [] x).2 ≠ some .tooLong) (h2 : (scan split m2 s2 [] x).2 ≠ some .tooLong) :
    scan split m1 s1 [] x = scan split m2 s2 [] x := by
  rcases scan_eq_ref split hs m1 s1 [] x with a | a
  · rcases scan_eq_ref split hs m2 s2 [] x with b | b
    · rw [a, b]
    · exact absurd b h2
  · exact absurd a h1

end Icl
