/-
The executable model of the current source: regenerated layouts, rule trees, code tables and character
map, with the decoder of encoding/base64.  The driver runs exactly this value (so the correspondence
check exercises it), and the theorems about "the" reader are instantiated at it.
-/
import IclModel.Tree
import IclModel.Base64
import IclModel.Gen.Layouts
import IclModel.Gen.Rules
import IclModel.Gen.Cp037
namespace Icl

def genModel (frb : Bool) (now : Date) : Model :=
  { layouts := Gen.all, validator := treeValidator Gen.all Gen.allRules Gen.codes b64Go frb,
    accepts := fun fn x => codeAccepts Gen.codes fn (.s x),
    cm := { dec := Gen.cp037Dec, repl := Gen.cp037Repl }, b64 := b64Go, now := now, frb := frb }

end Icl
