/-
Spec — validation rules of every record in flattened form (one entry per rejection, with the
conditions under which it applies) and the code tables, transcribed from the field documentation of
each record file (the `Values:` lists in the struct comments), the comments of validators.go and the
M/C usage column of docs/file-structure.md.  Committed and reviewed; NOT regenerated.
Reading guide: a site `{ field := F, path := [(c1, true), (c2, false)] }` says "a record is rejected
on field F when c1 holds and c2 does not".
-/
import IclModel.Sites
namespace Icl.Spec
open Icl

def codes : Codes := [
  -- isAccountTypeCode: '0' '1' '2' '3' '4' '5' 'A' 'B' 'C' 'D' 'E' 'F' 'G' 'H' 'I' 'J'
  ("isAccountTypeCode", .strs [[0x30], [0x31], [0x32], [0x33], [0x34], [0x35], [0x41], [0x42], [0x43], [0x44], [0x45], [0x46], [0x47], [0x48], [0x49], [0x4A]]),
  -- isAlphanumeric:  0123456789ABCDEFGHIJKLMNOPQRSTUVWXYZabcdefghijklmnopqrstuvwxyz
  ("isAlphanumeric", .cls [0x20, 0x30, 0x31, 0x32, 0x33, 0x34, 0x35, 0x36, 0x37, 0x38, 0x39, 0x41, 0x42, 0x43, 0x44, 0x45, 0x46, 0x47, 0x48, 0x49, 0x4A, 0x4B, 0x4C, 0x4D, 0x4E, 0x4F, 0x50, 0x51, 0x52, 0x53, 0x54, 0x55, 0x56, 0x57, 0x58, 0x59, 0x5A, 0x61, 0x62, 0x63, 0x64, 0x65, 0x66, 0x67, 0x68, 0x69, 0x6A, 0x6B, 0x6C, 0x6D, 0x6E, 0x6F, 0x70, 0x71, 0x72, 0x73, 0x74, 0x75, 0x76, 0x77, 0x78, 0x79, 0x7A]),
  -- isAlphanumericSpecial:  !"#$%&'()*+,-./0123456789:;<=>?@ABCDEFGHIJKLMNOPQRSTUVWXYZ[\]^_abcdefghijklmnopqrstuvwxyz{|}~
  ("isAlphanumericSpecial", .cls [0x20, 0x21, 0x22, 0x23, 0x24, 0x25, 0x26, 0x27, 0x28, 0x29, 0x2A, 0x2B, 0x2C, 0x2D, 0x2E, 0x2F, 0x30, 0x31, 0x32, 0x33, 0x34, 0x35, 0x36, 0x37, 0x38, 0x39, 0x3A, 0x3B, 0x3C, 0x3D, 0x3E, 0x3F, 0x40, 0x41, 0x42, 0x43, 0x44, 0x45, 0x46, 0x47, 0x48, 0x49, 0x4A, 0x4B, 0x4C, 0x4D, 0x4E, 0x4F, 0x50, 0x51, 0x52, 0x53, 0x54, 0x55, 0x56, 0x57, 0x58, 0x59, 0x5A, 0x5B, 0x5C, 0x5D, 0x5E, 0x5F, 0x61, 0x62, 0x63, 0x64, 0x65, 0x66, 0x67, 0x68, 0x69, 0x6A, 0x6B, 0x6C, 0x6D, 0x6E, 0x6F, 0x70, 0x71, 0x72, 0x73, 0x74, 0x75, 0x76, 0x77, 0x78, 0x79, 0x7A, 0x7B, 0x7C, 0x7D, 0x7E]),
  -- isArchiveTypeIndicator: 'A' 'B' 'C' 'D' 'E' 'F' 'G' 'H' 'I'
  ("isArchiveTypeIndicator", .strs [[0x41], [0x42], [0x43], [0x44], [0x45], [0x46], [0x47], [0x48], [0x49]]),
  -- isBOFDIndicator: 'Y' 'N' 'U'
  ("isBOFDIndicator", .strs [[0x59], [0x4E], [0x55]]),
  -- isCollectionTypeIndicator: '00' '01' '02' '03' '04' '05' '06' '20' '99'
  ("isCollectionTypeIndicator", .strs [[0x30, 0x30], [0x30, 0x31], [0x30, 0x32], [0x30, 0x33], [0x30, 0x34], [0x30, 0x35], [0x30, 0x36], [0x32, 0x30], [0x39, 0x39]]),
  -- isCompanionDocumentIndicatorCA: '' 'A' 'B' 'C' 'D' 'E' 'F' 'G' 'H' 'I' 'J'
  ("isCompanionDocumentIndicatorCA", .strs [[], [0x41], [0x42], [0x43], [0x44], [0x45], [0x46], [0x47], [0x48], [0x49], [0x4A]]),
  -- isCompanionDocumentIndicatorUS: '' '0' '1' '2' '3' '4' '5' '6' '7'
  ("isCompanionDocumentIndicatorUS", .strs [[], [0x30], [0x31], [0x32], [0x33], [0x34], [0x35], [0x36], [0x37]]),
  -- isConversionIndicator: '0' '1' '2' '3' '4' '5' '6' '7' '8'
  ("isConversionIndicator", .strs [[0x30], [0x31], [0x32], [0x33], [0x34], [0x35], [0x36], [0x37], [0x38]]),
  -- isCorrectionIndicator: 
  ("isCorrectionIndicator", .ints [0, 1, 2, 3, 4]),
  -- isCreditTotalIndicator: 
  ("isCreditTotalIndicator", .ints [0, 1]),
  -- isDigitalSignatureIndicator: 
  ("isDigitalSignatureIndicator", .ints [0, 1]),
  -- isDigitalSignatureMethod: '00' '01' '02' '03' '04' '05'
  ("isDigitalSignatureMethod", .strs [[0x30, 0x30], [0x30, 0x31], [0x30, 0x32], [0x30, 0x33], [0x30, 0x34], [0x30, 0x35]]),
  -- isDocumentationTypeIndicator: '' 'A' 'B' 'C' 'D' 'E' 'F' 'G' 'H' 'I' 'J' 'K' 'L' 'M' 'Z'
  ("isDocumentationTypeIndicator", .strs [[], [0x41], [0x42], [0x43], [0x44], [0x45], [0x46], [0x47], [0x48], [0x49], [0x4A], [0x4B], [0x4C], [0x4D], [0x5A]]),
  -- isEndorsementIndicator: 
  ("isEndorsementIndicator", .ints [0, 1, 2, 3, 4, 5, 9]),
  -- isEndorsingBankIdentifier: 
  ("isEndorsingBankIdentifier", .ints [0, 1, 2, 3]),
  -- isImageIndicator: 
  ("isImageIndicator", .ints [0, 1, 2, 3]),
  -- isImageRecreateIndicator: 
  ("isImageRecreateIndicator", .ints [0, 1]),
  -- isImageReferenceKeyIndicator: 
  ("isImageReferenceKeyIndicator", .ints [0, 1]),
  -- isImageViewAnalysisValid: '' '0' '1' '2'
  ("isImageViewAnalysisValid", .strs [[], [0x30], [0x31], [0x32]]),
  -- isImageViewCompressionAlgorithm: '00' '01' '02' '21' '22' '23'
  ("isImageViewCompressionAlgorithm", .strs [[0x30, 0x30], [0x30, 0x31], [0x30, 0x32], [0x32, 0x31], [0x32, 0x32], [0x32, 0x33]]),
  -- isImageViewFormatIndicator: '00' '01' '20' '22' '23'
  ("isImageViewFormatIndicator", .strs [[0x30, 0x30], [0x30, 0x31], [0x32, 0x30], [0x32, 0x32], [0x32, 0x33]]),
  -- isMICRValidIndicator: 
  ("isMICRValidIndicator", .ints [0, 1, 2, 3, 4]),
  -- isNumeric:  0123456789
  ("isNumeric", .cls [0x20, 0x30, 0x31, 0x32, 0x33, 0x34, 0x35, 0x36, 0x37, 0x38, 0x39]),
  -- isOverrideIndicator: '' '0' '1' 'A' 'B' 'C' 'D' 'E' 'F' 'G' 'H' 'I' 'J' 'K' 'L' 'M' 'N' 'O'
  ("isOverrideIndicator", .strs [[], [0x30], [0x31], [0x41], [0x42], [0x43], [0x44], [0x45], [0x46], [0x47], [0x48], [0x49], [0x4A], [0x4B], [0x4C], [0x4D], [0x4E], [0x4F]]),
  -- isOwnerIdentifierIndicator: 
  ("isOwnerIdentifierIndicator", .ints [0, 1, 2, 3, 4, 5]),
  -- isRecordTypeIndicator: 'N' 'E' 'I' 'F'
  ("isRecordTypeIndicator", .strs [[0x4E], [0x45], [0x49], [0x46]]),
  -- isResendIndicator: 'Y' 'N'
  ("isResendIndicator", .strs [[0x59], [0x4E]]),
  -- isReturnAcceptanceIndicator: '0' '1' '2' '3' '4' '5' '6' '7' '8' '9' 'A' 'B' 'C' 'D' 'E' 'F'
  ("isReturnAcceptanceIndicator", .strs [[0x30], [0x31], [0x32], [0x33], [0x34], [0x35], [0x36], [0x37], [0x38], [0x39], [0x41], [0x42], [0x43], [0x44], [0x45], [0x46]]),
  -- isReturnNotificationIndicator: '1' '2'
  ("isReturnNotificationIndicator", .strs [[0x31], [0x32]]),
  -- isReturnsIndicator: '' 'E' 'R' 'J'
  ("isReturnsIndicator", .strs [[], [0x45], [0x52], [0x4A]]),
  -- isSourceWorkCode: '00' '01' '02' '03' '04' '05' '06' '07' '08' '09' '10' '11' '21' '22' '23' '24' '25' '26' '27' '28' '29' '30' '31' '32' '33' '34' '35' '36' '37' '38' '39' '40' '41' '42' '43' '44' '45' '46' '47' '48' '49' '50'
  ("isSourceWorkCode", .strs [[0x30, 0x30], [0x30, 0x31], [0x30, 0x32], [0x30, 0x33], [0x30, 0x34], [0x30, 0x35], [0x30, 0x36], [0x30, 0x37], [0x30, 0x38], [0x30, 0x39], [0x31, 0x30], [0x31, 0x31], [0x32, 0x31], [0x32, 0x32], [0x32, 0x33], [0x32, 0x34], [0x32, 0x35], [0x32, 0x36], [0x32, 0x37], [0x32, 0x38], [0x32, 0x39], [0x33, 0x30], [0x33, 0x31], [0x33, 0x32], [0x33, 0x33], [0x33, 0x34], [0x33, 0x35], [0x33, 0x36], [0x33, 0x37], [0x33, 0x38], [0x33, 0x39], [0x34, 0x30], [0x34, 0x31], [0x34, 0x32], [0x34, 0x33], [0x34, 0x34], [0x34, 0x35], [0x34, 0x36], [0x34, 0x37], [0x34, 0x38], [0x34, 0x39], [0x35, 0x30]]),
  -- isStandardLevel: '03' '30' '35'
  ("isStandardLevel", .strs [[0x30, 0x33], [0x33, 0x30], [0x33, 0x35]]),
  -- isTestFileIndicator: 'P' 'T'
  ("isTestFileIndicator", .strs [[0x50], [0x54]]),
  -- isTimesReturned: 
  ("isTimesReturned", .ints [0, 1, 2, 3]),
  -- isTruncationIndicator: 'Y' 'N'
  ("isTruncationIndicator", .strs [[0x59], [0x4E]]),
  -- isViewDescriptor: '00' '01' '02' '03' '04' '05' '06' '07' '08' '09' '10' '11' '12' '13' '14'
  ("isViewDescriptor", .strs [[0x30, 0x30], [0x30, 0x31], [0x30, 0x32], [0x30, 0x33], [0x30, 0x34], [0x30, 0x35], [0x30, 0x36], [0x30, 0x37], [0x30, 0x38], [0x30, 0x39], [0x31, 0x30], [0x31, 0x31], [0x31, 0x32], [0x31, 0x33], [0x31, 0x34]]),
  -- isViewSideIndicator: 
  ("isViewSideIndicator", .ints [0, 1]),
  -- AdministrativeReturnCodeDict: 'I' 'Q' 'T' 'U' 'V' 'Y' '1' '2' '3' '4' '5' '6'
  ("AdministrativeReturnCodeDict", .strs [[0x49], [0x51], [0x54], [0x55], [0x56], [0x59], [0x31], [0x32], [0x33], [0x34], [0x35], [0x36]]),
  -- CustomerReturnCodeDict: 'A' 'B' 'C' 'D' 'E' 'F' 'G' 'H' 'I' 'J' 'K' 'L' 'M' 'N' 'O' 'P' 'Q' 'R' 'S' 'T' 'U' 'W' 'X' 'Y' 'Z' '3' '4' '5' '6' '7' '8' '9' '0'
  ("CustomerReturnCodeDict", .strs [[0x41], [0x42], [0x43], [0x44], [0x45], [0x46], [0x47], [0x48], [0x49], [0x4A], [0x4B], [0x4C], [0x4D], [0x4E], [0x4F], [0x50], [0x51], [0x52], [0x53], [0x54], [0x55], [0x57], [0x58], [0x59], [0x5A], [0x33], [0x34], [0x35], [0x36], [0x37], [0x38], [0x39], [0x30]])
]

namespace Rules

/-- 01 FileHeader -/
def fileHeader : List Site := [
  -- recordType: reject when recordType eq ""
  { field := "recordType", path := [((.eq (.fieldS "recordType") (.str [])), true)] },
  -- StandardLevel: reject when StandardLevel eq ""
  { field := "StandardLevel", path := [((.eq (.fieldS "StandardLevel") (.str [])), true)] },
  -- TestFileIndicator: reject when TestFileIndicator eq ""
  { field := "TestFileIndicator", path := [((.eq (.fieldS "TestFileIndicator") (.str [])), true)] },
  -- ResendIndicator: reject when ResendIndicator eq ""
  { field := "ResendIndicator", path := [((.eq (.fieldS "ResendIndicator") (.str [])), true)] },
  -- ImmediateDestination: reject when ImmediateDestination eq ""
  { field := "ImmediateDestination", path := [((.eq (.fieldS "ImmediateDestination") (.str [])), true)] },
  -- ImmediateOrigin: reject when ImmediateOrigin eq ""
  { field := "ImmediateOrigin", path := [((.eq (.fieldS "ImmediateOrigin") (.str [])), true)] },
  -- ImmediateOrigin: reject when ImmediateOriginField() eq "000000000"
  { field := "ImmediateOrigin", path := [((.eq (.getter "ImmediateOriginField") (.str [0x30, 0x30, 0x30, 0x30, 0x30, 0x30, 0x30, 0x30, 0x30])), true)] },
  -- ImmediateDestination: reject when ImmediateDestinationField() eq "000000000"
  { field := "ImmediateDestination", path := [((.eq (.getter "ImmediateDestinationField") (.str [0x30, 0x30, 0x30, 0x30, 0x30, 0x30, 0x30, 0x30, 0x30])), true)] },
  -- FileCreationDate: reject when iszero(FileCreationDate)
  { field := "FileCreationDate", path := [((.iszero "FileCreationDate" false), true)] },
  -- FileCreationTime: reject when iszero(FileCreationTime)
  { field := "FileCreationTime", path := [((.iszero "FileCreationTime" true), true)] },
  -- recordType: reject when recordType ne "01"
  { field := "recordType", path := [((.ne (.fieldS "recordType") (.str [0x30, 0x31])), true)] },
  -- StandardLevel: reject when !isStandardLevel(StandardLevel)
  { field := "StandardLevel", path := [((.invalid "isStandardLevel" (.fieldS "StandardLevel")), true)] },
  -- TestFileIndicator: reject when !isTestFileIndicator(TestFileIndicator)
  { field := "TestFileIndicator", path := [((.invalid "isTestFileIndicator" (.fieldS "TestFileIndicator")), true)] },
  -- ResendIndicator: reject when !isResendIndicator(ResendIndicator)
  { field := "ResendIndicator", path := [((.invalid "isResendIndicator" (.fieldS "ResendIndicator")), true)] },
  -- ImmediateDestinationName: reject when !isAlphanumericSpecial(ImmediateDestinationName)
  { field := "ImmediateDestinationName", path := [((.invalid "isAlphanumericSpecial" (.fieldS "ImmediateDestinationName")), true)] },
  -- ImmediateOriginName: reject when !isAlphanumericSpecial(ImmediateOriginName)
  { field := "ImmediateOriginName", path := [((.invalid "isAlphanumericSpecial" (.fieldS "ImmediateOriginName")), true)] },
  -- FileIDModifier: reject when !isAlphanumeric(FileIDModifier)
  { field := "FileIDModifier", path := [((.invalid "isAlphanumeric" (.fieldS "FileIDModifier")), true)] },
  -- CompanionDocumentIndicator: reject when CountryCode eq "US" && !isCompanionDocumentIndicatorUS(CompanionDocumentIndicator)
  { field := "CompanionDocumentIndicator", path := [((.eq (.fieldS "CountryCode") (.str [0x55, 0x53])), true), ((.invalid "isCompanionDocumentIndicatorUS" (.fieldS "CompanionDocumentIndicator")), true)] },
  -- CompanionDocumentIndicator: reject when CountryCode eq "CA" && !isCompanionDocumentIndicatorCA(CompanionDocumentIndicator)
  { field := "CompanionDocumentIndicator", path := [((.eq (.fieldS "CountryCode") (.str [0x43, 0x41])), true), ((.invalid "isCompanionDocumentIndicatorCA" (.fieldS "CompanionDocumentIndicator")), true)] },
  -- UserField: reject when !isAlphanumericSpecial(UserField)
  { field := "UserField", path := [((.invalid "isAlphanumericSpecial" (.fieldS "UserField")), true)] }
]

/-- 10 CashLetterHeader -/
def cashLetterHeader : List Site := [
  -- recordType: reject when recordType eq ""
  { field := "recordType", path := [((.eq (.fieldS "recordType") (.str [])), true)] },
  -- CollectionTypeIndicator: reject when CollectionTypeIndicator eq ""
  { field := "CollectionTypeIndicator", path := [((.eq (.fieldS "CollectionTypeIndicator") (.str [])), true)] },
  -- RecordTypeIndicator: reject when RecordTypeIndicator eq ""
  { field := "RecordTypeIndicator", path := [((.eq (.fieldS "RecordTypeIndicator") (.str [])), true)] },
  -- DestinationRoutingNumber: reject when DestinationRoutingNumber eq ""
  { field := "DestinationRoutingNumber", path := [((.eq (.fieldS "DestinationRoutingNumber") (.str [])), true)] },
  -- ECEInstitutionRoutingNumber: reject when ECEInstitutionRoutingNumber eq ""
  { field := "ECEInstitutionRoutingNumber", path := [((.eq (.fieldS "ECEInstitutionRoutingNumber") (.str [])), true)] },
  -- DestinationRoutingNumber: reject when DestinationRoutingNumberField() eq "000000000"
  { field := "DestinationRoutingNumber", path := [((.eq (.getter "DestinationRoutingNumberField") (.str [0x30, 0x30, 0x30, 0x30, 0x30, 0x30, 0x30, 0x30, 0x30])), true)] },
  -- ECEInstitutionRoutingNumber: reject when ECEInstitutionRoutingNumberField() eq "000000000"
  { field := "ECEInstitutionRoutingNumber", path := [((.eq (.getter "ECEInstitutionRoutingNumberField") (.str [0x30, 0x30, 0x30, 0x30, 0x30, 0x30, 0x30, 0x30, 0x30])), true)] },
  -- CashLetterBusinessDate: reject when iszero(CashLetterBusinessDate)
  { field := "CashLetterBusinessDate", path := [((.iszero "CashLetterBusinessDate" false), true)] },
  -- CashLetterCreationDate: reject when iszero(CashLetterCreationDate)
  { field := "CashLetterCreationDate", path := [((.iszero "CashLetterCreationDate" false), true)] },
  -- CashLetterCreationTime: reject when iszero(CashLetterCreationTime)
  { field := "CashLetterCreationTime", path := [((.iszero "CashLetterCreationTime" true), true)] },
  -- CashLetterID: reject when CashLetterID eq ""
  { field := "CashLetterID", path := [((.eq (.fieldS "CashLetterID") (.str [])), true)] },
  -- recordType: reject when recordType ne "10"
  { field := "recordType", path := [((.ne (.fieldS "recordType") (.str [0x31, 0x30])), true)] },
  -- CollectionTypeIndicator: reject when !isCollectionTypeIndicator(CollectionTypeIndicator)
  { field := "CollectionTypeIndicator", path := [((.invalid "isCollectionTypeIndicator" (.fieldS "CollectionTypeIndicator")), true)] },
  -- RecordTypeIndicator: reject when !isRecordTypeIndicator(RecordTypeIndicator)
  { field := "RecordTypeIndicator", path := [((.invalid "isRecordTypeIndicator" (.fieldS "RecordTypeIndicator")), true)] },
  -- DocumentationTypeIndicator: reject when !isDocumentationTypeIndicator(DocumentationTypeIndicator)
  { field := "DocumentationTypeIndicator", path := [((.invalid "isDocumentationTypeIndicator" (.fieldS "DocumentationTypeIndicator")), true)] },
  -- CashLetterID: reject when !isAlphanumeric(CashLetterID)
  { field := "CashLetterID", path := [((.invalid "isAlphanumeric" (.fieldS "CashLetterID")), true)] },
  -- OriginatorContactName: reject when !isAlphanumericSpecial(OriginatorContactName)
  { field := "OriginatorContactName", path := [((.invalid "isAlphanumericSpecial" (.fieldS "OriginatorContactName")), true)] },
  -- OriginatorContactPhoneNumber: reject when !isNumeric(OriginatorContactPhoneNumber)
  { field := "OriginatorContactPhoneNumber", path := [((.invalid "isNumeric" (.fieldS "OriginatorContactPhoneNumber")), true)] },
  -- FedWorkType: reject when !isAlphanumeric(FedWorkType)
  { field := "FedWorkType", path := [((.invalid "isAlphanumeric" (.fieldS "FedWorkType")), true)] },
  -- ReturnsIndicator: reject when !isReturnsIndicator(ReturnsIndicator)
  { field := "ReturnsIndicator", path := [((.invalid "isReturnsIndicator" (.fieldS "ReturnsIndicator")), true)] },
  -- UserField: reject when !isAlphanumericSpecial(UserField)
  { field := "UserField", path := [((.invalid "isAlphanumericSpecial" (.fieldS "UserField")), true)] }
]

/-- 20 BundleHeader -/
def bundleHeader : List Site := [
  -- recordType: reject when recordType eq ""
  { field := "recordType", path := [((.eq (.fieldS "recordType") (.str [])), true)] },
  -- CollectionTypeIndicator: reject when CollectionTypeIndicator eq ""
  { field := "CollectionTypeIndicator", path := [((.eq (.fieldS "CollectionTypeIndicator") (.str [])), true)] },
  -- DestinationRoutingNumber: reject when DestinationRoutingNumber eq ""
  { field := "DestinationRoutingNumber", path := [((.eq (.fieldS "DestinationRoutingNumber") (.str [])), true)] },
  -- DestinationRoutingNumber: reject when DestinationRoutingNumberField() eq "000000000"
  { field := "DestinationRoutingNumber", path := [((.eq (.getter "DestinationRoutingNumberField") (.str [0x30, 0x30, 0x30, 0x30, 0x30, 0x30, 0x30, 0x30, 0x30])), true)] },
  -- ECEInstitutionRoutingNumber: reject when ECEInstitutionRoutingNumber eq ""
  { field := "ECEInstitutionRoutingNumber", path := [((.eq (.fieldS "ECEInstitutionRoutingNumber") (.str [])), true)] },
  -- ECEInstitutionRoutingNumber: reject when ECEInstitutionRoutingNumberField() eq "000000000"
  { field := "ECEInstitutionRoutingNumber", path := [((.eq (.getter "ECEInstitutionRoutingNumberField") (.str [0x30, 0x30, 0x30, 0x30, 0x30, 0x30, 0x30, 0x30, 0x30])), true)] },
  -- BundleBusinessDate: reject when iszero(BundleBusinessDate)
  { field := "BundleBusinessDate", path := [((.iszero "BundleBusinessDate" false), true)] },
  -- BundleCreationDate: reject when iszero(BundleCreationDate)
  { field := "BundleCreationDate", path := [((.iszero "BundleCreationDate" false), true)] },
  -- BundleSequenceNumber: reject when BundleSequenceNumberField() eq "    "
  { field := "BundleSequenceNumber", path := [((.eq (.getter "BundleSequenceNumberField") (.str [0x20, 0x20, 0x20, 0x20])), true)] },
  -- recordType: reject when recordType ne "20"
  { field := "recordType", path := [((.ne (.fieldS "recordType") (.str [0x32, 0x30])), true)] },
  -- CollectionTypeIndicator: reject when !isCollectionTypeIndicator(CollectionTypeIndicator)
  { field := "CollectionTypeIndicator", path := [((.invalid "isCollectionTypeIndicator" (.fieldS "CollectionTypeIndicator")), true)] },
  -- BundleID: reject when !isAlphanumeric(BundleID)
  { field := "BundleID", path := [((.invalid "isAlphanumeric" (.fieldS "BundleID")), true)] },
  -- CycleNumber: reject when !isAlphanumeric(CycleNumber)
  { field := "CycleNumber", path := [((.invalid "isAlphanumeric" (.fieldS "CycleNumber")), true)] },
  -- UserField: reject when !isAlphanumericSpecial(UserField)
  { field := "UserField", path := [((.invalid "isAlphanumericSpecial" (.fieldS "UserField")), true)] }
]

/-- 25 CheckDetail -/
def checkDetail : List Site := [
  -- recordType: reject when recordType eq ""
  { field := "recordType", path := [((.eq (.fieldS "recordType") (.str [])), true)] },
  -- PayorBankRoutingNumber: reject when PayorBankRoutingNumber eq ""
  { field := "PayorBankRoutingNumber", path := [((.eq (.fieldS "PayorBankRoutingNumber") (.str [])), true)] },
  -- PayorBankRoutingNumber: reject when PayorBankRoutingNumberField() eq "00000000"
  { field := "PayorBankRoutingNumber", path := [((.eq (.getter "PayorBankRoutingNumberField") (.str [0x30, 0x30, 0x30, 0x30, 0x30, 0x30, 0x30, 0x30])), true)] },
  -- PayorBankCheckDigit: reject when PayorBankCheckDigit eq ""
  { field := "PayorBankCheckDigit", path := [((.eq (.fieldS "PayorBankCheckDigit") (.str [])), true)] },
  -- EceInstitutionItemSequenceNumber: reject when EceInstitutionItemSequenceNumberField() eq "               "
  { field := "EceInstitutionItemSequenceNumber", path := [((.eq (.getter "EceInstitutionItemSequenceNumberField") (.str [0x20, 0x20, 0x20, 0x20, 0x20, 0x20, 0x20, 0x20, 0x20, 0x20, 0x20, 0x20, 0x20, 0x20, 0x20])), true)] },
  -- BOFDIndicator: reject when BOFDIndicator eq ""
  { field := "BOFDIndicator", path := [((.eq (.fieldS "BOFDIndicator") (.str [])), true)] },
  -- recordType: reject when recordType ne "25"
  { field := "recordType", path := [((.ne (.fieldS "recordType") (.str [0x32, 0x35])), true)] },
  -- DocumentationTypeIndicator: reject when DocumentationTypeIndicator ne "" && DocumentationTypeIndicator eq "Z"
  { field := "DocumentationTypeIndicator", path := [((.ne (.fieldS "DocumentationTypeIndicator") (.str [])), true), ((.eq (.fieldS "DocumentationTypeIndicator") (.str [0x5A])), true)] },
  -- DocumentationTypeIndicator: reject when DocumentationTypeIndicator ne "" && !isDocumentationTypeIndicator(DocumentationTypeIndicator)
  { field := "DocumentationTypeIndicator", path := [((.ne (.fieldS "DocumentationTypeIndicator") (.str [])), true), ((.invalid "isDocumentationTypeIndicator" (.fieldS "DocumentationTypeIndicator")), true)] },
  -- ReturnAcceptanceIndicator: reject when ReturnAcceptanceIndicator ne "" && !isReturnAcceptanceIndicator(ReturnAcceptanceIndicator)
  { field := "ReturnAcceptanceIndicator", path := [((.ne (.fieldS "ReturnAcceptanceIndicator") (.str [])), true), ((.invalid "isReturnAcceptanceIndicator" (.fieldS "ReturnAcceptanceIndicator")), true)] },
  -- MICRValidIndicator: reject when MICRValidIndicatorField() ne "" && !isMICRValidIndicator(MICRValidIndicator)
  { field := "MICRValidIndicator", path := [((.ne (.getter "MICRValidIndicatorField") (.str [])), true), ((.invalid "isMICRValidIndicator" (.fieldI "MICRValidIndicator")), true)] },
  -- BOFDIndicator: reject when !isBOFDIndicator(BOFDIndicator)
  { field := "BOFDIndicator", path := [((.invalid "isBOFDIndicator" (.fieldS "BOFDIndicator")), true)] },
  -- CorrectionIndicator: reject when CorrectionIndicatorField() ne "" && !isCorrectionIndicator(CorrectionIndicator)
  { field := "CorrectionIndicator", path := [((.ne (.getter "CorrectionIndicatorField") (.str [])), true), ((.invalid "isCorrectionIndicator" (.fieldI "CorrectionIndicator")), true)] },
  -- ArchiveTypeIndicator: reject when ArchiveTypeIndicator ne "" && !isArchiveTypeIndicator(ArchiveTypeIndicator)
  { field := "ArchiveTypeIndicator", path := [((.ne (.fieldS "ArchiveTypeIndicator") (.str [])), true), ((.invalid "isArchiveTypeIndicator" (.fieldS "ArchiveTypeIndicator")), true)] }
]

/-- 26 CheckDetailAddendumA -/
def checkDetailAddendumA : List Site := [
  -- recordType: reject when recordType eq ""
  { field := "recordType", path := [((.eq (.fieldS "recordType") (.str [])), true)] },
  -- RecordNumber: reject when RecordNumber eq 0
  { field := "RecordNumber", path := [((.eq (.fieldI "RecordNumber") (.int (0))), true)] },
  -- ReturnLocationRoutingNumber: reject when ReturnLocationRoutingNumber eq ""
  { field := "ReturnLocationRoutingNumber", path := [((.eq (.fieldS "ReturnLocationRoutingNumber") (.str [])), true)] },
  -- ReturnLocationRoutingNumber: reject when not FRB && ReturnLocationRoutingNumberField() eq "000000000"
  { field := "ReturnLocationRoutingNumber", path := [((.not .frb), true), ((.eq (.getter "ReturnLocationRoutingNumberField") (.str [0x30, 0x30, 0x30, 0x30, 0x30, 0x30, 0x30, 0x30, 0x30])), true)] },
  -- BOFDEndorsementDate: reject when iszero(BOFDEndorsementDate)
  { field := "BOFDEndorsementDate", path := [((.iszero "BOFDEndorsementDate" false), true)] },
  -- BOFDItemSequenceNumber: reject when BOFDItemSequenceNumber eq "               "
  { field := "BOFDItemSequenceNumber", path := [((.eq (.fieldS "BOFDItemSequenceNumber") (.str [0x20, 0x20, 0x20, 0x20, 0x20, 0x20, 0x20, 0x20, 0x20, 0x20, 0x20, 0x20, 0x20, 0x20, 0x20])), true)] },
  -- TruncationIndicator: set to 'N' when TruncationIndicator eq "" && FRB
  { field := "TruncationIndicator", path := [((.eq (.fieldS "TruncationIndicator") (.str [])), true), (.frb, true)], assign := some [0x4E] },
  -- TruncationIndicator: reject when TruncationIndicator eq "" && not(FRB)
  { field := "TruncationIndicator", path := [((.eq (.fieldS "TruncationIndicator") (.str [])), true), (.frb, false)] },
  -- recordType: reject when recordType ne "26"
  { field := "recordType", path := [((.ne (.fieldS "recordType") (.str [0x32, 0x36])), true)] },
  -- ReturnLocationRoutingNumber: reject when !isNumeric(ReturnLocationRoutingNumber)
  { field := "ReturnLocationRoutingNumber", path := [((.invalid "isNumeric" (.fieldS "ReturnLocationRoutingNumber")), true)] },
  -- BOFDAccountNumber: reject when !isAlphanumericSpecial(BOFDAccountNumber)
  { field := "BOFDAccountNumber", path := [((.invalid "isAlphanumericSpecial" (.fieldS "BOFDAccountNumber")), true)] },
  -- BOFDBranchCode: reject when !isAlphanumericSpecial(BOFDBranchCode)
  { field := "BOFDBranchCode", path := [((.invalid "isAlphanumericSpecial" (.fieldS "BOFDBranchCode")), true)] },
  -- PayeeName: reject when !isAlphanumericSpecial(PayeeName)
  { field := "PayeeName", path := [((.invalid "isAlphanumericSpecial" (.fieldS "PayeeName")), true)] },
  -- TruncationIndicator: reject when !isTruncationIndicator(TruncationIndicator)
  { field := "TruncationIndicator", path := [((.invalid "isTruncationIndicator" (.fieldS "TruncationIndicator")), true)] },
  -- BOFDConversionIndicator: reject when BOFDConversionIndicator ne "" && !isConversionIndicator(BOFDConversionIndicator)
  { field := "BOFDConversionIndicator", path := [((.ne (.fieldS "BOFDConversionIndicator") (.str [])), true), ((.invalid "isConversionIndicator" (.fieldS "BOFDConversionIndicator")), true)] },
  -- BOFDCorrectionIndicator: reject when BOFDCorrectionIndicatorField() ne "" && !isCorrectionIndicator(BOFDCorrectionIndicator)
  { field := "BOFDCorrectionIndicator", path := [((.ne (.getter "BOFDCorrectionIndicatorField") (.str [])), true), ((.invalid "isCorrectionIndicator" (.fieldI "BOFDCorrectionIndicator")), true)] },
  -- UserField: reject when !isAlphanumericSpecial(UserField)
  { field := "UserField", path := [((.invalid "isAlphanumericSpecial" (.fieldS "UserField")), true)] }
]

/-- 27 CheckDetailAddendumB -/
def checkDetailAddendumB : List Site := [
  -- recordType: reject when recordType eq ""
  { field := "recordType", path := [((.eq (.fieldS "recordType") (.str [])), true)] },
  -- MicrofilmArchiveSequenceNumber: reject when MicrofilmArchiveSequenceNumberField() eq "               "
  { field := "MicrofilmArchiveSequenceNumber", path := [((.eq (.getter "MicrofilmArchiveSequenceNumberField") (.str [0x20, 0x20, 0x20, 0x20, 0x20, 0x20, 0x20, 0x20, 0x20, 0x20, 0x20, 0x20, 0x20, 0x20, 0x20])), true)] },
  -- recordType: reject when recordType ne "27"
  { field := "recordType", path := [((.ne (.fieldS "recordType") (.str [0x32, 0x37])), true)] },
  -- ImageReferenceKeyIndicator: reject when !isImageReferenceKeyIndicator(ImageReferenceKeyIndicator)
  { field := "ImageReferenceKeyIndicator", path := [((.invalid "isImageReferenceKeyIndicator" (.fieldI "ImageReferenceKeyIndicator")), true)] },
  -- ImageReferenceKey: reject when !isAlphanumericSpecial(ImageReferenceKey)
  { field := "ImageReferenceKey", path := [((.invalid "isAlphanumericSpecial" (.fieldS "ImageReferenceKey")), true)] },
  -- Description: reject when !isAlphanumericSpecial(Description)
  { field := "Description", path := [((.invalid "isAlphanumericSpecial" (.fieldS "Description")), true)] },
  -- UserField: reject when !isAlphanumericSpecial(UserField)
  { field := "UserField", path := [((.invalid "isAlphanumericSpecial" (.fieldS "UserField")), true)] }
]

/-- 28 CheckDetailAddendumC -/
def checkDetailAddendumC : List Site := [
  -- recordType: reject when recordType eq ""
  { field := "recordType", path := [((.eq (.fieldS "recordType") (.str [])), true)] },
  -- RecordNumber: reject when RecordNumber eq 0
  { field := "RecordNumber", path := [((.eq (.fieldI "RecordNumber") (.int (0))), true)] },
  -- EndorsingBankRoutingNumber: reject when EndorsingBankRoutingNumber eq ""
  { field := "EndorsingBankRoutingNumber", path := [((.eq (.fieldS "EndorsingBankRoutingNumber") (.str [])), true)] },
  -- EndorsingBankRoutingNumber: reject when EndorsingBankRoutingNumberField() eq "000000000"
  { field := "EndorsingBankRoutingNumber", path := [((.eq (.getter "EndorsingBankRoutingNumberField") (.str [0x30, 0x30, 0x30, 0x30, 0x30, 0x30, 0x30, 0x30, 0x30])), true)] },
  -- BOFDEndorsementBusinessDate: reject when iszero(BOFDEndorsementBusinessDate)
  { field := "BOFDEndorsementBusinessDate", path := [((.iszero "BOFDEndorsementBusinessDate" false), true)] },
  -- EndorsingBankItemSequenceNumber: reject when (not FRB and EndorsingBankItemSequenceNumberField() eq "               ")
  { field := "EndorsingBankItemSequenceNumber", path := [((.and (.not .frb) (.eq (.getter "EndorsingBankItemSequenceNumberField") (.str [0x20, 0x20, 0x20, 0x20, 0x20, 0x20, 0x20, 0x20, 0x20, 0x20, 0x20, 0x20, 0x20, 0x20, 0x20]))), true)] },
  -- TruncationIndicator: reject when TruncationIndicator eq ""
  { field := "TruncationIndicator", path := [((.eq (.fieldS "TruncationIndicator") (.str [])), true)] },
  -- recordType: reject when recordType ne "28"
  { field := "recordType", path := [((.ne (.fieldS "recordType") (.str [0x32, 0x38])), true)] },
  -- EndorsingBankRoutingNumber: reject when !isNumeric(EndorsingBankRoutingNumber)
  { field := "EndorsingBankRoutingNumber", path := [((.invalid "isNumeric" (.fieldS "EndorsingBankRoutingNumber")), true)] },
  -- TruncationIndicator: reject when !isTruncationIndicator(TruncationIndicator)
  { field := "TruncationIndicator", path := [((.invalid "isTruncationIndicator" (.fieldS "TruncationIndicator")), true)] },
  -- EndorsingBankConversionIndicator: reject when EndorsingBankConversionIndicator ne "" && !isConversionIndicator(EndorsingBankConversionIndicator)
  { field := "EndorsingBankConversionIndicator", path := [((.ne (.fieldS "EndorsingBankConversionIndicator") (.str [])), true), ((.invalid "isConversionIndicator" (.fieldS "EndorsingBankConversionIndicator")), true)] },
  -- EndorsingBankCorrectionIndicator: reject when EndorsingBankCorrectionIndicatorField() ne "" && !isCorrectionIndicator(EndorsingBankCorrectionIndicator)
  { field := "EndorsingBankCorrectionIndicator", path := [((.ne (.getter "EndorsingBankCorrectionIndicatorField") (.str [])), true), ((.invalid "isCorrectionIndicator" (.fieldI "EndorsingBankCorrectionIndicator")), true)] },
  -- ReturnReason: reject when !isAlphanumeric(ReturnReason)
  { field := "ReturnReason", path := [((.invalid "isAlphanumeric" (.fieldS "ReturnReason")), true)] },
  -- UserField: reject when !isAlphanumericSpecial(UserField)
  { field := "UserField", path := [((.invalid "isAlphanumericSpecial" (.fieldS "UserField")), true)] },
  -- EndorsingBankIdentifier: reject when !isEndorsingBankIdentifier(EndorsingBankIdentifier)
  { field := "EndorsingBankIdentifier", path := [((.invalid "isEndorsingBankIdentifier" (.fieldI "EndorsingBankIdentifier")), true)] }
]

/-- 31 ReturnDetail -/
def returnDetail : List Site := [
  -- recordType: reject when recordType eq ""
  { field := "recordType", path := [((.eq (.fieldS "recordType") (.str [])), true)] },
  -- PayorBankRoutingNumber: reject when PayorBankRoutingNumber eq ""
  { field := "PayorBankRoutingNumber", path := [((.eq (.fieldS "PayorBankRoutingNumber") (.str [])), true)] },
  -- PayorBankRoutingNumber: reject when PayorBankRoutingNumberField() eq "00000000"
  { field := "PayorBankRoutingNumber", path := [((.eq (.getter "PayorBankRoutingNumberField") (.str [0x30, 0x30, 0x30, 0x30, 0x30, 0x30, 0x30, 0x30])), true)] },
  -- PayorBankCheckDigit: reject when PayorBankCheckDigit eq ""
  { field := "PayorBankCheckDigit", path := [((.eq (.fieldS "PayorBankCheckDigit") (.str [])), true)] },
  -- ReturnReason: reject when ReturnReason eq ""
  { field := "ReturnReason", path := [((.eq (.fieldS "ReturnReason") (.str [])), true)] },
  -- EceInstitutionItemSequenceNumber: reject when EceInstitutionItemSequenceNumberField() eq "               "
  { field := "EceInstitutionItemSequenceNumber", path := [((.eq (.getter "EceInstitutionItemSequenceNumberField") (.str [0x20, 0x20, 0x20, 0x20, 0x20, 0x20, 0x20, 0x20, 0x20, 0x20, 0x20, 0x20, 0x20, 0x20, 0x20])), true)] },
  -- recordType: reject when recordType ne "31"
  { field := "recordType", path := [((.ne (.fieldS "recordType") (.str [0x33, 0x31])), true)] },
  -- DocumentationTypeIndicator: reject when DocumentationTypeIndicator ne "" && DocumentationTypeIndicator eq "Z"
  { field := "DocumentationTypeIndicator", path := [((.ne (.fieldS "DocumentationTypeIndicator") (.str [])), true), ((.eq (.fieldS "DocumentationTypeIndicator") (.str [0x5A])), true)] },
  -- DocumentationTypeIndicator: reject when DocumentationTypeIndicator ne "" && !isDocumentationTypeIndicator(DocumentationTypeIndicator)
  { field := "DocumentationTypeIndicator", path := [((.ne (.fieldS "DocumentationTypeIndicator") (.str [])), true), ((.invalid "isDocumentationTypeIndicator" (.fieldS "DocumentationTypeIndicator")), true)] },
  -- ReturnNotificationIndicator: reject when ReturnNotificationIndicator ne "" && !isReturnNotificationIndicator(ReturnNotificationIndicator)
  { field := "ReturnNotificationIndicator", path := [((.ne (.fieldS "ReturnNotificationIndicator") (.str [])), true), ((.invalid "isReturnNotificationIndicator" (.fieldS "ReturnNotificationIndicator")), true)] },
  -- ArchiveTypeIndicator: reject when ArchiveTypeIndicator ne "" && !isArchiveTypeIndicator(ArchiveTypeIndicator)
  { field := "ArchiveTypeIndicator", path := [((.ne (.fieldS "ArchiveTypeIndicator") (.str [])), true), ((.invalid "isArchiveTypeIndicator" (.fieldS "ArchiveTypeIndicator")), true)] },
  -- TimesReturned: reject when (TimesReturnedField() ne " " and TimesReturnedField() ne "") && !isTimesReturned(TimesReturned)
  { field := "TimesReturned", path := [((.and (.ne (.getter "TimesReturnedField") (.str [0x20])) (.ne (.getter "TimesReturnedField") (.str []))), true), ((.invalid "isTimesReturned" (.fieldI "TimesReturned")), true)] },
  -- ReturnReason: reject when (not CustomerReturnCodeDict[ReturnReason] and not AdministrativeReturnCodeDict[ReturnReason])
  { field := "ReturnReason", path := [((.and (.not (.dictHas "CustomerReturnCodeDict" (.fieldS "ReturnReason"))) (.not (.dictHas "AdministrativeReturnCodeDict" (.fieldS "ReturnReason")))), true)] }
]

/-- 32 ReturnDetailAddendumA -/
def returnDetailAddendumA : List Site := [
  -- recordType: reject when recordType eq ""
  { field := "recordType", path := [((.eq (.fieldS "recordType") (.str [])), true)] },
  -- RecordNumber: reject when RecordNumber eq 0
  { field := "RecordNumber", path := [((.eq (.fieldI "RecordNumber") (.int (0))), true)] },
  -- ReturnLocationRoutingNumber: reject when ReturnLocationRoutingNumber eq ""
  { field := "ReturnLocationRoutingNumber", path := [((.eq (.fieldS "ReturnLocationRoutingNumber") (.str [])), true)] },
  -- ReturnLocationRoutingNumber: reject when ReturnLocationRoutingNumberField() eq "000000000"
  { field := "ReturnLocationRoutingNumber", path := [((.eq (.getter "ReturnLocationRoutingNumberField") (.str [0x30, 0x30, 0x30, 0x30, 0x30, 0x30, 0x30, 0x30, 0x30])), true)] },
  -- BOFDEndorsementDate: reject when (iszero(BOFDEndorsementDate) and not FRB)
  { field := "BOFDEndorsementDate", path := [((.and (.iszero "BOFDEndorsementDate" false) (.not .frb)), true)] },
  -- TruncationIndicator: reject when TruncationIndicator eq ""
  { field := "TruncationIndicator", path := [((.eq (.fieldS "TruncationIndicator") (.str [])), true)] },
  -- recordType: reject when recordType ne "32"
  { field := "recordType", path := [((.ne (.fieldS "recordType") (.str [0x33, 0x32])), true)] },
  -- ReturnLocationRoutingNumber: reject when !isNumeric(ReturnLocationRoutingNumber)
  { field := "ReturnLocationRoutingNumber", path := [((.invalid "isNumeric" (.fieldS "ReturnLocationRoutingNumber")), true)] },
  -- BOFDAccountNumber: reject when !isAlphanumericSpecial(BOFDAccountNumber)
  { field := "BOFDAccountNumber", path := [((.invalid "isAlphanumericSpecial" (.fieldS "BOFDAccountNumber")), true)] },
  -- BOFDBranchCode: reject when !isAlphanumericSpecial(BOFDBranchCode)
  { field := "BOFDBranchCode", path := [((.invalid "isAlphanumericSpecial" (.fieldS "BOFDBranchCode")), true)] },
  -- PayeeName: reject when !isAlphanumericSpecial(PayeeName)
  { field := "PayeeName", path := [((.invalid "isAlphanumericSpecial" (.fieldS "PayeeName")), true)] },
  -- TruncationIndicator: reject when !isTruncationIndicator(TruncationIndicator)
  { field := "TruncationIndicator", path := [((.invalid "isTruncationIndicator" (.fieldS "TruncationIndicator")), true)] },
  -- BOFDConversionIndicator: reject when BOFDConversionIndicator ne "" && !isConversionIndicator(BOFDConversionIndicator)
  { field := "BOFDConversionIndicator", path := [((.ne (.fieldS "BOFDConversionIndicator") (.str [])), true), ((.invalid "isConversionIndicator" (.fieldS "BOFDConversionIndicator")), true)] },
  -- BOFDCorrectionIndicator: reject when BOFDCorrectionIndicatorField() ne "" && !isCorrectionIndicator(BOFDCorrectionIndicator)
  { field := "BOFDCorrectionIndicator", path := [((.ne (.getter "BOFDCorrectionIndicatorField") (.str [])), true), ((.invalid "isCorrectionIndicator" (.fieldI "BOFDCorrectionIndicator")), true)] },
  -- UserField: reject when !isAlphanumericSpecial(UserField)
  { field := "UserField", path := [((.invalid "isAlphanumericSpecial" (.fieldS "UserField")), true)] }
]

/-- 33 ReturnDetailAddendumB -/
def returnDetailAddendumB : List Site := [
  -- recordType: reject when recordType eq ""
  { field := "recordType", path := [((.eq (.fieldS "recordType") (.str [])), true)] },
  -- PayorBankSequenceNumber: reject when PayorBankSequenceNumberField() eq "               "
  { field := "PayorBankSequenceNumber", path := [((.eq (.getter "PayorBankSequenceNumberField") (.str [0x20, 0x20, 0x20, 0x20, 0x20, 0x20, 0x20, 0x20, 0x20, 0x20, 0x20, 0x20, 0x20, 0x20, 0x20])), true)] },
  -- recordType: reject when recordType ne "33"
  { field := "recordType", path := [((.ne (.fieldS "recordType") (.str [0x33, 0x33])), true)] },
  -- PayorBankName: reject when !isAlphanumericSpecial(PayorBankName)
  { field := "PayorBankName", path := [((.invalid "isAlphanumericSpecial" (.fieldS "PayorBankName")), true)] },
  -- PayorAccountName: reject when !isAlphanumericSpecial(PayorAccountName)
  { field := "PayorAccountName", path := [((.invalid "isAlphanumericSpecial" (.fieldS "PayorAccountName")), true)] },
  -- PayorBankBusinessDate: reject when (not iszero(PayorBankBusinessDate) and year(PayorBankBusinessDate) outside 1993..9999)
  { field := "PayorBankBusinessDate", path := [((.and (.not (.iszero "PayorBankBusinessDate" false)) (.yearOutside "PayorBankBusinessDate" 1993 9999)), true)] }
]

/-- 34 ReturnDetailAddendumC -/
def returnDetailAddendumC : List Site := [
  -- recordType: reject when recordType eq ""
  { field := "recordType", path := [((.eq (.fieldS "recordType") (.str [])), true)] },
  -- MicrofilmArchiveSequenceNumber: reject when MicrofilmArchiveSequenceNumberField() eq "               "
  { field := "MicrofilmArchiveSequenceNumber", path := [((.eq (.getter "MicrofilmArchiveSequenceNumberField") (.str [0x20, 0x20, 0x20, 0x20, 0x20, 0x20, 0x20, 0x20, 0x20, 0x20, 0x20, 0x20, 0x20, 0x20, 0x20])), true)] },
  -- recordType: reject when recordType ne "34"
  { field := "recordType", path := [((.ne (.fieldS "recordType") (.str [0x33, 0x34])), true)] },
  -- ImageReferenceKeyIndicator: reject when !isImageReferenceKeyIndicator(ImageReferenceKeyIndicator)
  { field := "ImageReferenceKeyIndicator", path := [((.invalid "isImageReferenceKeyIndicator" (.fieldI "ImageReferenceKeyIndicator")), true)] },
  -- ImageReferenceKey: reject when !isAlphanumericSpecial(ImageReferenceKey)
  { field := "ImageReferenceKey", path := [((.invalid "isAlphanumericSpecial" (.fieldS "ImageReferenceKey")), true)] },
  -- Description: reject when !isAlphanumericSpecial(Description)
  { field := "Description", path := [((.invalid "isAlphanumericSpecial" (.fieldS "Description")), true)] },
  -- UserField: reject when !isAlphanumericSpecial(UserField)
  { field := "UserField", path := [((.invalid "isAlphanumericSpecial" (.fieldS "UserField")), true)] }
]

/-- 35 ReturnDetailAddendumD -/
def returnDetailAddendumD : List Site := [
  -- recordType: reject when recordType eq ""
  { field := "recordType", path := [((.eq (.fieldS "recordType") (.str [])), true)] },
  -- RecordNumber: reject when RecordNumber eq 0
  { field := "RecordNumber", path := [((.eq (.fieldI "RecordNumber") (.int (0))), true)] },
  -- EndorsingBankRoutingNumber: reject when EndorsingBankRoutingNumber eq ""
  { field := "EndorsingBankRoutingNumber", path := [((.eq (.fieldS "EndorsingBankRoutingNumber") (.str [])), true)] },
  -- EndorsingBankRoutingNumber: reject when EndorsingBankRoutingNumberField() eq "000000000"
  { field := "EndorsingBankRoutingNumber", path := [((.eq (.getter "EndorsingBankRoutingNumberField") (.str [0x30, 0x30, 0x30, 0x30, 0x30, 0x30, 0x30, 0x30, 0x30])), true)] },
  -- BOFDEndorsementBusinessDate: reject when iszero(BOFDEndorsementBusinessDate)
  { field := "BOFDEndorsementBusinessDate", path := [((.iszero "BOFDEndorsementBusinessDate" false), true)] },
  -- TruncationIndicator: reject when TruncationIndicator eq ""
  { field := "TruncationIndicator", path := [((.eq (.fieldS "TruncationIndicator") (.str [])), true)] },
  -- recordType: reject when recordType ne "35"
  { field := "recordType", path := [((.ne (.fieldS "recordType") (.str [0x33, 0x35])), true)] },
  -- EndorsingBankRoutingNumber: reject when !isNumeric(EndorsingBankRoutingNumber)
  { field := "EndorsingBankRoutingNumber", path := [((.invalid "isNumeric" (.fieldS "EndorsingBankRoutingNumber")), true)] },
  -- EndorsingBankItemSequenceNumber: reject when !isNumeric(EndorsingBankItemSequenceNumber)
  { field := "EndorsingBankItemSequenceNumber", path := [((.invalid "isNumeric" (.fieldS "EndorsingBankItemSequenceNumber")), true)] },
  -- TruncationIndicator: reject when !isTruncationIndicator(TruncationIndicator)
  { field := "TruncationIndicator", path := [((.invalid "isTruncationIndicator" (.fieldS "TruncationIndicator")), true)] },
  -- EndorsingBankConversionIndicator: reject when EndorsingBankConversionIndicator ne "" && !isConversionIndicator(EndorsingBankConversionIndicator)
  { field := "EndorsingBankConversionIndicator", path := [((.ne (.fieldS "EndorsingBankConversionIndicator") (.str [])), true), ((.invalid "isConversionIndicator" (.fieldS "EndorsingBankConversionIndicator")), true)] },
  -- EndorsingBankCorrectionIndicator: reject when EndorsingBankCorrectionIndicatorField() ne "" && !isCorrectionIndicator(EndorsingBankCorrectionIndicator)
  { field := "EndorsingBankCorrectionIndicator", path := [((.ne (.getter "EndorsingBankCorrectionIndicatorField") (.str [])), true), ((.invalid "isCorrectionIndicator" (.fieldI "EndorsingBankCorrectionIndicator")), true)] },
  -- ReturnReason: reject when !isAlphanumeric(ReturnReason)
  { field := "ReturnReason", path := [((.invalid "isAlphanumeric" (.fieldS "ReturnReason")), true)] },
  -- UserField: reject when !isAlphanumericSpecial(UserField)
  { field := "UserField", path := [((.invalid "isAlphanumericSpecial" (.fieldS "UserField")), true)] },
  -- EndorsingBankIdentifier: reject when !isEndorsingBankIdentifier(EndorsingBankIdentifier)
  { field := "EndorsingBankIdentifier", path := [((.invalid "isEndorsingBankIdentifier" (.fieldI "EndorsingBankIdentifier")), true)] }
]

/-- 50 ImageViewDetail -/
def imageViewDetail : List Site := [
  -- recordType: reject when recordType eq ""
  { field := "recordType", path := [((.eq (.fieldS "recordType") (.str [])), true)] },
  -- ImageCreatorRoutingNumber: reject when ImageCreatorRoutingNumber eq ""
  { field := "ImageCreatorRoutingNumber", path := [((.eq (.fieldS "ImageCreatorRoutingNumber") (.str [])), true)] },
  -- ImageCreatorRoutingNumber: reject when (ImageCreatorRoutingNumberField() eq "000000000" and not FRB)
  { field := "ImageCreatorRoutingNumber", path := [((.and (.eq (.getter "ImageCreatorRoutingNumberField") (.str [0x30, 0x30, 0x30, 0x30, 0x30, 0x30, 0x30, 0x30, 0x30])) (.not .frb)), true)] },
  -- ImageCreatorDate: reject when iszero(ImageCreatorDate)
  { field := "ImageCreatorDate", path := [((.iszero "ImageCreatorDate" false), true)] },
  -- ViewDescriptor: reject when ViewDescriptor eq ""
  { field := "ViewDescriptor", path := [((.eq (.fieldS "ViewDescriptor") (.str [])), true)] },
  -- recordType: reject when recordType ne "50"
  { field := "recordType", path := [((.ne (.fieldS "recordType") (.str [0x35, 0x30])), true)] },
  -- ImageIndicator: reject when !isImageIndicator(ImageIndicator)
  { field := "ImageIndicator", path := [((.invalid "isImageIndicator" (.fieldI "ImageIndicator")), true)] },
  -- ImageViewFormatIndicator: reject when ImageViewFormatIndicator ne "" && !isImageViewFormatIndicator(ImageViewFormatIndicator)
  { field := "ImageViewFormatIndicator", path := [((.ne (.fieldS "ImageViewFormatIndicator") (.str [])), true), ((.invalid "isImageViewFormatIndicator" (.fieldS "ImageViewFormatIndicator")), true)] },
  -- ImageViewCompressionAlgorithm: reject when ImageViewCompressionAlgorithm ne "" && !isImageViewCompressionAlgorithm(ImageViewCompressionAlgorithm)
  { field := "ImageViewCompressionAlgorithm", path := [((.ne (.fieldS "ImageViewCompressionAlgorithm") (.str [])), true), ((.invalid "isImageViewCompressionAlgorithm" (.fieldS "ImageViewCompressionAlgorithm")), true)] },
  -- ViewSideIndicator: reject when !isViewSideIndicator(ViewSideIndicator)
  { field := "ViewSideIndicator", path := [((.invalid "isViewSideIndicator" (.fieldI "ViewSideIndicator")), true)] },
  -- ViewDescriptor: reject when !isViewDescriptor(ViewDescriptor)
  { field := "ViewDescriptor", path := [((.invalid "isViewDescriptor" (.fieldS "ViewDescriptor")), true)] },
  -- DigitalSignatureIndicator: reject when DigitalSignatureIndicatorField() ne "" && !isDigitalSignatureIndicator(DigitalSignatureIndicator)
  { field := "DigitalSignatureIndicator", path := [((.ne (.getter "DigitalSignatureIndicatorField") (.str [])), true), ((.invalid "isDigitalSignatureIndicator" (.fieldI "DigitalSignatureIndicator")), true)] },
  -- DigitalSignatureMethod: set to '00' when DigitalSignatureMethod ne "" && (DigitalSignatureMethod eq "0" and FRB)
  { field := "DigitalSignatureMethod", path := [((.ne (.fieldS "DigitalSignatureMethod") (.str [])), true), ((.and (.eq (.fieldS "DigitalSignatureMethod") (.str [0x30])) .frb), true)], assign := some [0x30, 0x30] },
  -- DigitalSignatureMethod: reject when DigitalSignatureMethod ne "" && !isDigitalSignatureMethod(DigitalSignatureMethod)
  { field := "DigitalSignatureMethod", path := [((.ne (.fieldS "DigitalSignatureMethod") (.str [])), true), ((.invalid "isDigitalSignatureMethod" (.fieldS "DigitalSignatureMethod")), true)] },
  -- ImageRecreateIndicator: reject when ImageRecreateIndicatorField() ne "" && !isImageRecreateIndicator(ImageRecreateIndicator)
  { field := "ImageRecreateIndicator", path := [((.ne (.getter "ImageRecreateIndicatorField") (.str [])), true), ((.invalid "isImageRecreateIndicator" (.fieldI "ImageRecreateIndicator")), true)] },
  -- OverrideIndicator: reject when OverrideIndicator ne "" && !isOverrideIndicator(OverrideIndicator)
  { field := "OverrideIndicator", path := [((.ne (.fieldS "OverrideIndicator") (.str [])), true), ((.invalid "isOverrideIndicator" (.fieldS "OverrideIndicator")), true)] },
  -- UserField: reject when !isAlphanumericSpecial(UserField)
  { field := "UserField", path := [((.invalid "isAlphanumericSpecial" (.fieldS "UserField")), true)] }
]

/-- 52 ImageViewData -/
def imageViewData : List Site := [
  -- recordType: reject when recordType eq ""
  { field := "recordType", path := [((.eq (.fieldS "recordType") (.str [])), true)] },
  -- EceInstitutionRoutingNumber: reject when EceInstitutionRoutingNumber eq ""
  { field := "EceInstitutionRoutingNumber", path := [((.eq (.fieldS "EceInstitutionRoutingNumber") (.str [])), true)] },
  -- EceInstitutionRoutingNumber: reject when EceInstitutionRoutingNumberField() eq "000000000"
  { field := "EceInstitutionRoutingNumber", path := [((.eq (.getter "EceInstitutionRoutingNumberField") (.str [0x30, 0x30, 0x30, 0x30, 0x30, 0x30, 0x30, 0x30, 0x30])), true)] },
  -- BundleBusinessDate: reject when iszero(BundleBusinessDate)
  { field := "BundleBusinessDate", path := [((.iszero "BundleBusinessDate" false), true)] },
  -- recordType: reject when recordType ne "52"
  { field := "recordType", path := [((.ne (.fieldS "recordType") (.str [0x35, 0x32])), true)] },
  -- CycleNumber: reject when !isAlphanumeric(CycleNumber)
  { field := "CycleNumber", path := [((.invalid "isAlphanumeric" (.fieldS "CycleNumber")), true)] },
  -- SecurityOriginatorName: reject when !isAlphanumericSpecial(SecurityOriginatorName)
  { field := "SecurityOriginatorName", path := [((.invalid "isAlphanumericSpecial" (.fieldS "SecurityOriginatorName")), true)] },
  -- SecurityAuthenticatorName: reject when !isAlphanumericSpecial(SecurityAuthenticatorName)
  { field := "SecurityAuthenticatorName", path := [((.invalid "isAlphanumericSpecial" (.fieldS "SecurityAuthenticatorName")), true)] },
  -- SecurityKeyName: reject when !isAlphanumericSpecial(SecurityKeyName)
  { field := "SecurityKeyName", path := [((.invalid "isAlphanumericSpecial" (.fieldS "SecurityKeyName")), true)] },
  -- ImageReferenceKey: reject when !isAlphanumericSpecial(ImageReferenceKey)
  { field := "ImageReferenceKey", path := [((.invalid "isAlphanumericSpecial" (.fieldS "ImageReferenceKey")), true)] }
]

/-- 54 ImageViewAnalysis -/
def imageViewAnalysis : List Site := [
  -- recordType: reject when recordType eq ""
  { field := "recordType", path := [((.eq (.fieldS "recordType") (.str [])), true)] },
  -- recordType: reject when recordType ne "54"
  { field := "recordType", path := [((.ne (.fieldS "recordType") (.str [0x35, 0x34])), true)] },
  -- GlobalImageQuality: reject when !isImageViewAnalysisValid(GlobalImageQualityField())
  { field := "GlobalImageQuality", path := [((.invalid "isImageViewAnalysisValid" (.getter "GlobalImageQualityField")), true)] },
  -- GlobalImageUsability: reject when !isImageViewAnalysisValid(GlobalImageUsabilityField())
  { field := "GlobalImageUsability", path := [((.invalid "isImageViewAnalysisValid" (.getter "GlobalImageUsabilityField")), true)] },
  -- ImagingBankSpecificTest: reject when !isImageViewAnalysisValid(ImagingBankSpecificTestField())
  { field := "ImagingBankSpecificTest", path := [((.invalid "isImageViewAnalysisValid" (.getter "ImagingBankSpecificTestField")), true)] },
  -- PartialImage: reject when !isImageViewAnalysisValid(PartialImageField())
  { field := "PartialImage", path := [((.invalid "isImageViewAnalysisValid" (.getter "PartialImageField")), true)] },
  -- ExcessiveImageSkew: reject when !isImageViewAnalysisValid(ExcessiveImageSkewField())
  { field := "ExcessiveImageSkew", path := [((.invalid "isImageViewAnalysisValid" (.getter "ExcessiveImageSkewField")), true)] },
  -- PiggybackImage: reject when !isImageViewAnalysisValid(PiggybackImageField())
  { field := "PiggybackImage", path := [((.invalid "isImageViewAnalysisValid" (.getter "PiggybackImageField")), true)] },
  -- TooLightOrTooDark: reject when !isImageViewAnalysisValid(TooLightOrTooDarkField())
  { field := "TooLightOrTooDark", path := [((.invalid "isImageViewAnalysisValid" (.getter "TooLightOrTooDarkField")), true)] },
  -- StreaksAndOrBands: reject when !isImageViewAnalysisValid(StreaksAndOrBandsField())
  { field := "StreaksAndOrBands", path := [((.invalid "isImageViewAnalysisValid" (.getter "StreaksAndOrBandsField")), true)] },
  -- BelowMinimumImageSize: reject when !isImageViewAnalysisValid(BelowMinimumImageSizeField())
  { field := "BelowMinimumImageSize", path := [((.invalid "isImageViewAnalysisValid" (.getter "BelowMinimumImageSizeField")), true)] },
  -- ExceedsMaximumImageSize: reject when !isImageViewAnalysisValid(ExceedsMaximumImageSizeField())
  { field := "ExceedsMaximumImageSize", path := [((.invalid "isImageViewAnalysisValid" (.getter "ExceedsMaximumImageSizeField")), true)] },
  -- ImageEnabledPOD: reject when !isImageViewAnalysisValid(ImageEnabledPODField())
  { field := "ImageEnabledPOD", path := [((.invalid "isImageViewAnalysisValid" (.getter "ImageEnabledPODField")), true)] },
  -- SourceDocumentBad: reject when !isImageViewAnalysisValid(SourceDocumentBadField())
  { field := "SourceDocumentBad", path := [((.invalid "isImageViewAnalysisValid" (.getter "SourceDocumentBadField")), true)] },
  -- DateUsability: reject when !isImageViewAnalysisValid(DateUsabilityField())
  { field := "DateUsability", path := [((.invalid "isImageViewAnalysisValid" (.getter "DateUsabilityField")), true)] },
  -- PayeeUsability: reject when !isImageViewAnalysisValid(PayeeUsabilityField())
  { field := "PayeeUsability", path := [((.invalid "isImageViewAnalysisValid" (.getter "PayeeUsabilityField")), true)] },
  -- ConvenienceAmountUsability: reject when !isImageViewAnalysisValid(ConvenienceAmountUsabilityField())
  { field := "ConvenienceAmountUsability", path := [((.invalid "isImageViewAnalysisValid" (.getter "ConvenienceAmountUsabilityField")), true)] },
  -- AmountInWordsUsability: reject when !isImageViewAnalysisValid(AmountInWordsUsabilityField())
  { field := "AmountInWordsUsability", path := [((.invalid "isImageViewAnalysisValid" (.getter "AmountInWordsUsabilityField")), true)] },
  -- SignatureUsability: reject when !isImageViewAnalysisValid(SignatureUsabilityField())
  { field := "SignatureUsability", path := [((.invalid "isImageViewAnalysisValid" (.getter "SignatureUsabilityField")), true)] },
  -- PayorNameAddressUsability: reject when !isImageViewAnalysisValid(PayorNameAddressUsabilityField())
  { field := "PayorNameAddressUsability", path := [((.invalid "isImageViewAnalysisValid" (.getter "PayorNameAddressUsabilityField")), true)] },
  -- MICRLineUsability: reject when !isImageViewAnalysisValid(MICRLineUsabilityField())
  { field := "MICRLineUsability", path := [((.invalid "isImageViewAnalysisValid" (.getter "MICRLineUsabilityField")), true)] },
  -- MemoLineUsability: reject when !isImageViewAnalysisValid(MemoLineUsabilityField())
  { field := "MemoLineUsability", path := [((.invalid "isImageViewAnalysisValid" (.getter "MemoLineUsabilityField")), true)] },
  -- PayorBankNameAddressUsability: reject when !isImageViewAnalysisValid(PayorBankNameAddressUsabilityField())
  { field := "PayorBankNameAddressUsability", path := [((.invalid "isImageViewAnalysisValid" (.getter "PayorBankNameAddressUsabilityField")), true)] },
  -- PayeeEndorsementUsability: reject when !isImageViewAnalysisValid(PayeeEndorsementUsabilityField())
  { field := "PayeeEndorsementUsability", path := [((.invalid "isImageViewAnalysisValid" (.getter "PayeeEndorsementUsabilityField")), true)] },
  -- BOFDEndorsementUsability: reject when !isImageViewAnalysisValid(BOFDEndorsementUsabilityField())
  { field := "BOFDEndorsementUsability", path := [((.invalid "isImageViewAnalysisValid" (.getter "BOFDEndorsementUsabilityField")), true)] },
  -- TransitEndorsementUsability: reject when !isImageViewAnalysisValid(TransitEndorsementUsabilityField())
  { field := "TransitEndorsementUsability", path := [((.invalid "isImageViewAnalysisValid" (.getter "TransitEndorsementUsabilityField")), true)] },
  -- UserField: reject when !isAlphanumericSpecial(UserField)
  { field := "UserField", path := [((.invalid "isAlphanumericSpecial" (.fieldS "UserField")), true)] }
]

/-- 61 Credit -/
def credit : List Site := [
  -- recordType: reject when recordType eq ""
  { field := "recordType", path := [((.eq (.fieldS "recordType") (.str [])), true)] },
  -- PayorBankRoutingNumber: reject when PayorBankRoutingNumberField() eq "000000000"
  { field := "PayorBankRoutingNumber", path := [((.eq (.getter "PayorBankRoutingNumberField") (.str [0x30, 0x30, 0x30, 0x30, 0x30, 0x30, 0x30, 0x30, 0x30])), true)] },
  -- CreditAccountNumberOnUs: reject when CreditAccountNumberOnUs eq ""
  { field := "CreditAccountNumberOnUs", path := [((.eq (.fieldS "CreditAccountNumberOnUs") (.str [])), true)] },
  -- ItemAmount: reject when ItemAmount eq 0
  { field := "ItemAmount", path := [((.eq (.fieldI "ItemAmount") (.int (0))), true)] },
  -- recordType: reject when recordType ne "61"
  { field := "recordType", path := [((.ne (.fieldS "recordType") (.str [0x36, 0x31])), true)] },
  -- SourceWorkCode: reject when SourceWorkCode ne "" && SourceWorkCode ne "3"
  { field := "SourceWorkCode", path := [((.ne (.fieldS "SourceWorkCode") (.str [])), true), ((.ne (.fieldS "SourceWorkCode") (.str [0x33])), true)] },
  -- AccountTypeCode: reject when AccountTypeCode ne "" && !isAccountTypeCode(AccountTypeCode)
  { field := "AccountTypeCode", path := [((.ne (.fieldS "AccountTypeCode") (.str [])), true), ((.invalid "isAccountTypeCode" (.fieldS "AccountTypeCode")), true)] },
  -- DocumentationTypeIndicator: reject when DocumentationTypeIndicator ne "" && DocumentationTypeIndicator ne "G"
  { field := "DocumentationTypeIndicator", path := [((.ne (.fieldS "DocumentationTypeIndicator") (.str [])), true), ((.ne (.fieldS "DocumentationTypeIndicator") (.str [0x47])), true)] },
  -- ECEInstitutionItemSequenceNumber: reject when ECEInstitutionItemSequenceNumber ne "" && !isNumeric(ECEInstitutionItemSequenceNumber)
  { field := "ECEInstitutionItemSequenceNumber", path := [((.ne (.fieldS "ECEInstitutionItemSequenceNumber") (.str [])), true), ((.invalid "isNumeric" (.fieldS "ECEInstitutionItemSequenceNumber")), true)] },
  -- PayorBankRoutingNumber: reject when !isNumeric(PayorBankRoutingNumber)
  { field := "PayorBankRoutingNumber", path := [((.invalid "isNumeric" (.fieldS "PayorBankRoutingNumber")), true)] },
  -- AuxiliaryOnUs: reject when (contains(AuxiliaryOnUs,'\\') or contains(AuxiliaryOnUs,'/'))
  { field := "AuxiliaryOnUs", path := [((.or (.contains (.fieldS "AuxiliaryOnUs") [0x5C]) (.contains (.fieldS "AuxiliaryOnUs") [0x2F])), true)] }
]

/-- 62 CreditItem -/
def creditItem : List Site := [
  -- recordType: reject when recordType eq ""
  { field := "recordType", path := [((.eq (.fieldS "recordType") (.str [])), true)] },
  -- PostingBankRoutingNumber: reject when PostingBankRoutingNumber eq ""
  { field := "PostingBankRoutingNumber", path := [((.eq (.fieldS "PostingBankRoutingNumber") (.str [])), true)] },
  -- PostingBankRoutingNumber: reject when PostingBankRoutingNumberField() eq "000000000"
  { field := "PostingBankRoutingNumber", path := [((.eq (.getter "PostingBankRoutingNumberField") (.str [0x30, 0x30, 0x30, 0x30, 0x30, 0x30, 0x30, 0x30, 0x30])), true)] },
  -- CreditItemSequenceNumber: reject when CreditItemSequenceNumberField() eq "               "
  { field := "CreditItemSequenceNumber", path := [((.eq (.getter "CreditItemSequenceNumberField") (.str [0x20, 0x20, 0x20, 0x20, 0x20, 0x20, 0x20, 0x20, 0x20, 0x20, 0x20, 0x20, 0x20, 0x20, 0x20])), true)] },
  -- recordType: reject when recordType ne "62"
  { field := "recordType", path := [((.ne (.fieldS "recordType") (.str [0x36, 0x32])), true)] },
  -- DocumentationTypeIndicator: reject when DocumentationTypeIndicator ne "" && DocumentationTypeIndicator eq "Z"
  { field := "DocumentationTypeIndicator", path := [((.ne (.fieldS "DocumentationTypeIndicator") (.str [])), true), ((.eq (.fieldS "DocumentationTypeIndicator") (.str [0x5A])), true)] },
  -- DocumentationTypeIndicator: reject when DocumentationTypeIndicator ne "" && DocumentationTypeIndicator eq "M"
  { field := "DocumentationTypeIndicator", path := [((.ne (.fieldS "DocumentationTypeIndicator") (.str [])), true), ((.eq (.fieldS "DocumentationTypeIndicator") (.str [0x4D])), true)] },
  -- DocumentationTypeIndicator: reject when DocumentationTypeIndicator ne "" && !isDocumentationTypeIndicator(DocumentationTypeIndicator)
  { field := "DocumentationTypeIndicator", path := [((.ne (.fieldS "DocumentationTypeIndicator") (.str [])), true), ((.invalid "isDocumentationTypeIndicator" (.fieldS "DocumentationTypeIndicator")), true)] },
  -- AccountTypeCode: reject when !isAccountTypeCode(AccountTypeCode)
  { field := "AccountTypeCode", path := [((.invalid "isAccountTypeCode" (.fieldS "AccountTypeCode")), true)] },
  -- SourceWorkCode: reject when !isSourceWorkCode(SourceWorkCode)
  { field := "SourceWorkCode", path := [((.invalid "isSourceWorkCode" (.fieldS "SourceWorkCode")), true)] },
  -- UserField: reject when !isAlphanumericSpecial(UserField)
  { field := "UserField", path := [((.invalid "isAlphanumericSpecial" (.fieldS "UserField")), true)] }
]

/-- 68 UserGeneral -/
def userGeneral : List Site := [
  -- recordType: reject when recordType eq ""
  { field := "recordType", path := [((.eq (.fieldS "recordType") (.str [])), true)] },
  -- UserRecordFormatType: reject when UserRecordFormatType eq ""
  { field := "UserRecordFormatType", path := [((.eq (.fieldS "UserRecordFormatType") (.str [])), true)] },
  -- FormatTypeVersionLevel: reject when FormatTypeVersionLevel eq ""
  { field := "FormatTypeVersionLevel", path := [((.eq (.fieldS "FormatTypeVersionLevel") (.str [])), true)] },
  -- LengthUserData: reject when LengthUserData eq ""
  { field := "LengthUserData", path := [((.eq (.fieldS "LengthUserData") (.str [])), true)] },
  -- UserData: reject when UserData eq ""
  { field := "UserData", path := [((.eq (.fieldS "UserData") (.str [])), true)] },
  -- recordType: reject when recordType ne "68"
  { field := "recordType", path := [((.ne (.fieldS "recordType") (.str [0x36, 0x38])), true)] },
  -- UserRecordFormatType: reject when UserRecordFormatType eq "001"
  { field := "UserRecordFormatType", path := [((.eq (.fieldS "UserRecordFormatType") (.str [0x30, 0x30, 0x31])), true)] },
  -- OwnerIdentifierIndicator: reject when !isOwnerIdentifierIndicator(OwnerIdentifierIndicator)
  { field := "OwnerIdentifierIndicator", path := [((.invalid "isOwnerIdentifierIndicator" (.fieldI "OwnerIdentifierIndicator")), true)] },
  -- OwnerIdentifierModifier: reject when OwnerIdentifierModifier ne "" && !isAlphanumericSpecial(OwnerIdentifierModifier)
  { field := "OwnerIdentifierModifier", path := [((.ne (.fieldS "OwnerIdentifierModifier") (.str [])), true), ((.invalid "isAlphanumericSpecial" (.fieldS "OwnerIdentifierModifier")), true)] },
  -- UserRecordFormatType: reject when !isAlphanumeric(UserRecordFormatType)
  { field := "UserRecordFormatType", path := [((.invalid "isAlphanumeric" (.fieldS "UserRecordFormatType")), true)] },
  -- FormatTypeVersionLevel: reject when !isNumeric(FormatTypeVersionLevel)
  { field := "FormatTypeVersionLevel", path := [((.invalid "isNumeric" (.fieldS "FormatTypeVersionLevel")), true)] },
  -- LengthUserData: reject when !isNumeric(LengthUserData)
  { field := "LengthUserData", path := [((.invalid "isNumeric" (.fieldS "LengthUserData")), true)] },
  -- UserData: reject when !isAlphanumericSpecial(UserData)
  { field := "UserData", path := [((.invalid "isAlphanumericSpecial" (.fieldS "UserData")), true)] },
  -- OwnerIdentifier: reject when OwnerIdentifierIndicator eq 0 && OwnerIdentifier ne ""
  { field := "OwnerIdentifier", path := [((.eq (.fieldI "OwnerIdentifierIndicator") (.int (0))), true), ((.ne (.fieldS "OwnerIdentifier") (.str [])), true)] },
  -- OwnerIdentifier: reject when not(OwnerIdentifierIndicator eq 0) && ((OwnerIdentifierIndicator eq 1 or OwnerIdentifierIndicator eq 2) or OwnerIdentifierIndicator eq 3) && !isNumeric(OwnerIdentifier)
  { field := "OwnerIdentifier", path := [((.eq (.fieldI "OwnerIdentifierIndicator") (.int (0))), false), ((.or (.or (.eq (.fieldI "OwnerIdentifierIndicator") (.int (1))) (.eq (.fieldI "OwnerIdentifierIndicator") (.int (2)))) (.eq (.fieldI "OwnerIdentifierIndicator") (.int (3)))), true), ((.invalid "isNumeric" (.fieldS "OwnerIdentifier")), true)] },
  -- OwnerIdentifier: reject when not(OwnerIdentifierIndicator eq 0) && not(((OwnerIdentifierIndicator eq 1 or OwnerIdentifierIndicator eq 2) or OwnerIdentifierIndicator eq 3)) && OwnerIdentifierIndicator eq 4 && !isAlphanumericSpecial(OwnerIdentifier)
  { field := "OwnerIdentifier", path := [((.eq (.fieldI "OwnerIdentifierIndicator") (.int (0))), false), ((.or (.or (.eq (.fieldI "OwnerIdentifierIndicator") (.int (1))) (.eq (.fieldI "OwnerIdentifierIndicator") (.int (2)))) (.eq (.fieldI "OwnerIdentifierIndicator") (.int (3)))), false), ((.eq (.fieldI "OwnerIdentifierIndicator") (.int (4))), true), ((.invalid "isAlphanumericSpecial" (.fieldS "OwnerIdentifier")), true)] }
]

/-- 68 UserPayeeEndorsement -/
def userPayeeEndorsement : List Site := [
  -- recordType: reject when recordType eq ""
  { field := "recordType", path := [((.eq (.fieldS "recordType") (.str [])), true)] },
  -- UserRecordFormatType: reject when UserRecordFormatType eq ""
  { field := "UserRecordFormatType", path := [((.eq (.fieldS "UserRecordFormatType") (.str [])), true)] },
  -- FormatTypeVersionLevel: reject when FormatTypeVersionLevel eq ""
  { field := "FormatTypeVersionLevel", path := [((.eq (.fieldS "FormatTypeVersionLevel") (.str [])), true)] },
  -- LengthUserData: reject when LengthUserData eq ""
  { field := "LengthUserData", path := [((.eq (.fieldS "LengthUserData") (.str [])), true)] },
  -- recordType: reject when recordType ne "68"
  { field := "recordType", path := [((.ne (.fieldS "recordType") (.str [0x36, 0x38])), true)] },
  -- UserRecordFormatType: reject when UserRecordFormatType ne "001"
  { field := "UserRecordFormatType", path := [((.ne (.fieldS "UserRecordFormatType") (.str [0x30, 0x30, 0x31])), true)] },
  -- FormatTypeVersionLevel: reject when !isNumeric(FormatTypeVersionLevel)
  { field := "FormatTypeVersionLevel", path := [((.invalid "isNumeric" (.fieldS "FormatTypeVersionLevel")), true)] },
  -- OwnerIdentifierIndicator: reject when !isOwnerIdentifierIndicator(OwnerIdentifierIndicator)
  { field := "OwnerIdentifierIndicator", path := [((.invalid "isOwnerIdentifierIndicator" (.fieldI "OwnerIdentifierIndicator")), true)] },
  -- OwnerIdentifierModifier: reject when OwnerIdentifierModifier ne "" && !isAlphanumericSpecial(OwnerIdentifierModifier)
  { field := "OwnerIdentifierModifier", path := [((.ne (.fieldS "OwnerIdentifierModifier") (.str [])), true), ((.invalid "isAlphanumericSpecial" (.fieldS "OwnerIdentifierModifier")), true)] },
  -- OwnerIdentifier: reject when OwnerIdentifierIndicator eq 0 && OwnerIdentifier ne ""
  { field := "OwnerIdentifier", path := [((.eq (.fieldI "OwnerIdentifierIndicator") (.int (0))), true), ((.ne (.fieldS "OwnerIdentifier") (.str [])), true)] },
  -- OwnerIdentifier: reject when not(OwnerIdentifierIndicator eq 0) && ((OwnerIdentifierIndicator eq 1 or OwnerIdentifierIndicator eq 2) or OwnerIdentifierIndicator eq 3) && !isNumeric(OwnerIdentifier)
  { field := "OwnerIdentifier", path := [((.eq (.fieldI "OwnerIdentifierIndicator") (.int (0))), false), ((.or (.or (.eq (.fieldI "OwnerIdentifierIndicator") (.int (1))) (.eq (.fieldI "OwnerIdentifierIndicator") (.int (2)))) (.eq (.fieldI "OwnerIdentifierIndicator") (.int (3)))), true), ((.invalid "isNumeric" (.fieldS "OwnerIdentifier")), true)] },
  -- OwnerIdentifier: reject when not(OwnerIdentifierIndicator eq 0) && not(((OwnerIdentifierIndicator eq 1 or OwnerIdentifierIndicator eq 2) or OwnerIdentifierIndicator eq 3)) && OwnerIdentifierIndicator eq 4 && !isAlphanumericSpecial(OwnerIdentifier)
  { field := "OwnerIdentifier", path := [((.eq (.fieldI "OwnerIdentifierIndicator") (.int (0))), false), ((.or (.or (.eq (.fieldI "OwnerIdentifierIndicator") (.int (1))) (.eq (.fieldI "OwnerIdentifierIndicator") (.int (2)))) (.eq (.fieldI "OwnerIdentifierIndicator") (.int (3)))), false), ((.eq (.fieldI "OwnerIdentifierIndicator") (.int (4))), true), ((.invalid "isAlphanumericSpecial" (.fieldS "OwnerIdentifier")), true)] },
  -- LengthUserData: reject when LengthUserData ne "0000290"
  { field := "LengthUserData", path := [((.ne (.fieldS "LengthUserData") (.str [0x30, 0x30, 0x30, 0x30, 0x32, 0x39, 0x30])), true)] },
  -- CustomerIdentifier: reject when CustomerIdentifier ne "" && !isAlphanumericSpecial(CustomerIdentifier)
  { field := "CustomerIdentifier", path := [((.ne (.fieldS "CustomerIdentifier") (.str [])), true), ((.invalid "isAlphanumericSpecial" (.fieldS "CustomerIdentifier")), true)] },
  -- CustomerContactInformation: reject when CustomerContactInformation ne "" && !isAlphanumericSpecial(CustomerContactInformation)
  { field := "CustomerContactInformation", path := [((.ne (.fieldS "CustomerContactInformation") (.str [])), true), ((.invalid "isAlphanumericSpecial" (.fieldS "CustomerContactInformation")), true)] },
  -- StoreMerchantProcessingSiteNumber: reject when StoreMerchantProcessingSiteNumber ne "" && !isAlphanumericSpecial(StoreMerchantProcessingSiteNumber)
  { field := "StoreMerchantProcessingSiteNumber", path := [((.ne (.fieldS "StoreMerchantProcessingSiteNumber") (.str [])), true), ((.invalid "isAlphanumericSpecial" (.fieldS "StoreMerchantProcessingSiteNumber")), true)] },
  -- InternalControlSequenceNumber: reject when InternalControlSequenceNumber ne "" && !isAlphanumericSpecial(InternalControlSequenceNumber)
  { field := "InternalControlSequenceNumber", path := [((.ne (.fieldS "InternalControlSequenceNumber") (.str [])), true), ((.invalid "isAlphanumericSpecial" (.fieldS "InternalControlSequenceNumber")), true)] },
  -- EndorsementIndicator: reject when EndorsementIndicatorField() ne "" && !isEndorsementIndicator(EndorsementIndicator)
  { field := "EndorsementIndicator", path := [((.ne (.getter "EndorsementIndicatorField") (.str [])), true), ((.invalid "isEndorsementIndicator" (.fieldI "EndorsementIndicator")), true)] },
  -- UserField: reject when UserField ne "" && !isAlphanumericSpecial(UserField)
  { field := "UserField", path := [((.ne (.fieldS "UserField") (.str [])), true), ((.invalid "isAlphanumericSpecial" (.fieldS "UserField")), true)] },
  -- PayeeName: reject when PayeeName ne "" && !isAlphanumericSpecial(PayeeName)
  { field := "PayeeName", path := [((.ne (.fieldS "PayeeName") (.str [])), true), ((.invalid "isAlphanumericSpecial" (.fieldS "PayeeName")), true)] },
  -- BankRoutingNumber: reject when BankRoutingNumber ne "" && !isNumeric(BankRoutingNumber)
  { field := "BankRoutingNumber", path := [((.ne (.fieldS "BankRoutingNumber") (.str [])), true), ((.invalid "isNumeric" (.fieldS "BankRoutingNumber")), true)] },
  -- BankAccountNumber: reject when BankAccountNumber ne "" && !isAlphanumericSpecial(BankAccountNumber)
  { field := "BankAccountNumber", path := [((.ne (.fieldS "BankAccountNumber") (.str [])), true), ((.invalid "isAlphanumericSpecial" (.fieldS "BankAccountNumber")), true)] },
  -- OperatorName: reject when OperatorName ne "" && !isAlphanumericSpecial(OperatorName)
  { field := "OperatorName", path := [((.ne (.fieldS "OperatorName") (.str [])), true), ((.invalid "isAlphanumericSpecial" (.fieldS "OperatorName")), true)] },
  -- OperatorNumber: reject when OperatorNumber ne "" && !isAlphanumericSpecial(OperatorNumber)
  { field := "OperatorNumber", path := [((.ne (.fieldS "OperatorNumber") (.str [])), true), ((.invalid "isAlphanumericSpecial" (.fieldS "OperatorNumber")), true)] },
  -- ManagerName: reject when ManagerName ne "" && !isAlphanumericSpecial(ManagerName)
  { field := "ManagerName", path := [((.ne (.fieldS "ManagerName") (.str [])), true), ((.invalid "isAlphanumericSpecial" (.fieldS "ManagerName")), true)] },
  -- ManagerNumber: reject when ManagerNumber ne "" && !isAlphanumericSpecial(ManagerNumber)
  { field := "ManagerNumber", path := [((.ne (.fieldS "ManagerNumber") (.str [])), true), ((.invalid "isAlphanumericSpecial" (.fieldS "ManagerNumber")), true)] },
  -- EquipmentNumber: reject when EquipmentNumber ne "" && !isAlphanumericSpecial(EquipmentNumber)
  { field := "EquipmentNumber", path := [((.ne (.fieldS "EquipmentNumber") (.str [])), true), ((.invalid "isAlphanumericSpecial" (.fieldS "EquipmentNumber")), true)] }
]

/-- 70 BundleControl -/
def bundleControl : List Site := [
  -- recordType: reject when recordType eq ""
  { field := "recordType", path := [((.eq (.fieldS "recordType") (.str [])), true)] },
  -- BundleItemsCount: reject when BundleItemsCount eq 0
  { field := "BundleItemsCount", path := [((.eq (.fieldI "BundleItemsCount") (.int (0))), true)] },
  -- BundleTotalAmount: reject when BundleTotalAmount eq 0
  { field := "BundleTotalAmount", path := [((.eq (.fieldI "BundleTotalAmount") (.int (0))), true)] },
  -- recordType: reject when recordType ne "70"
  { field := "recordType", path := [((.ne (.fieldS "recordType") (.str [0x37, 0x30])), true)] },
  -- UserField: reject when !isAlphanumericSpecial(UserField)
  { field := "UserField", path := [((.invalid "isAlphanumericSpecial" (.fieldS "UserField")), true)] },
  -- CreditTotalIndicator: reject when CreditTotalIndicatorField() ne "" && !isCreditTotalIndicator(CreditTotalIndicator)
  { field := "CreditTotalIndicator", path := [((.ne (.getter "CreditTotalIndicatorField") (.str [])), true), ((.invalid "isCreditTotalIndicator" (.fieldI "CreditTotalIndicator")), true)] }
]

/-- 85 RoutingNumberSummary -/
def routingNumberSummary : List Site := [
  -- recordType: reject when recordType eq ""
  { field := "recordType", path := [((.eq (.fieldS "recordType") (.str [])), true)] },
  -- CashLetterRoutingNumber: reject when CashLetterRoutingNumber eq ""
  { field := "CashLetterRoutingNumber", path := [((.eq (.fieldS "CashLetterRoutingNumber") (.str [])), true)] },
  -- recordType: reject when recordType ne "85"
  { field := "recordType", path := [((.ne (.fieldS "recordType") (.str [0x38, 0x35])), true)] },
  -- UserField: reject when !isAlphanumericSpecial(UserField)
  { field := "UserField", path := [((.invalid "isAlphanumericSpecial" (.fieldS "UserField")), true)] }
]

/-- 90 CashLetterControl -/
def cashLetterControl : List Site := [
  -- recordType: reject when recordType eq ""
  { field := "recordType", path := [((.eq (.fieldS "recordType") (.str [])), true)] },
  -- CashLetterItemsCount: reject when CashLetterItemsCount eq 0
  { field := "CashLetterItemsCount", path := [((.eq (.fieldI "CashLetterItemsCount") (.int (0))), true)] },
  -- CashLetterTotalAmount: reject when CashLetterTotalAmount eq 0
  { field := "CashLetterTotalAmount", path := [((.eq (.fieldI "CashLetterTotalAmount") (.int (0))), true)] },
  -- SettlementDate: reject when (not iszero(SettlementDate) and year(SettlementDate) outside 1993..9999)
  { field := "SettlementDate", path := [((.and (.not (.iszero "SettlementDate" false)) (.yearOutside "SettlementDate" 1993 9999)), true)] },
  -- recordType: reject when recordType ne "90"
  { field := "recordType", path := [((.ne (.fieldS "recordType") (.str [0x39, 0x30])), true)] },
  -- ECEInstitutionName: reject when !isAlphanumericSpecial(ECEInstitutionName)
  { field := "ECEInstitutionName", path := [((.invalid "isAlphanumericSpecial" (.fieldS "ECEInstitutionName")), true)] },
  -- CreditTotalIndicator: reject when CreditTotalIndicatorField() ne "" && !isCreditTotalIndicator(CreditTotalIndicator)
  { field := "CreditTotalIndicator", path := [((.ne (.getter "CreditTotalIndicatorField") (.str [])), true), ((.invalid "isCreditTotalIndicator" (.fieldI "CreditTotalIndicator")), true)] }
]

/-- 99 FileControl -/
def fileControl : List Site := [
  -- recordType: reject when recordType eq ""
  { field := "recordType", path := [((.eq (.fieldS "recordType") (.str [])), true)] },
  -- CashLetterCount: reject when CashLetterCount eq 0
  { field := "CashLetterCount", path := [((.eq (.fieldI "CashLetterCount") (.int (0))), true)] },
  -- TotalRecordCount: reject when TotalRecordCount eq 0
  { field := "TotalRecordCount", path := [((.eq (.fieldI "TotalRecordCount") (.int (0))), true)] },
  -- TotalItemCount: reject when TotalItemCount eq 0
  { field := "TotalItemCount", path := [((.eq (.fieldI "TotalItemCount") (.int (0))), true)] },
  -- FileTotalAmount: reject when FileTotalAmount eq 0
  { field := "FileTotalAmount", path := [((.eq (.fieldI "FileTotalAmount") (.int (0))), true)] },
  -- recordType: reject when recordType ne "99"
  { field := "recordType", path := [((.ne (.fieldS "recordType") (.str [0x39, 0x39])), true)] },
  -- ImmediateOriginContactName: reject when !isAlphanumericSpecial(ImmediateOriginContactName)
  { field := "ImmediateOriginContactName", path := [((.invalid "isAlphanumericSpecial" (.fieldS "ImmediateOriginContactName")), true)] },
  -- ImmediateOriginContactPhoneNumber: reject when !isNumeric(ImmediateOriginContactPhoneNumber)
  { field := "ImmediateOriginContactPhoneNumber", path := [((.invalid "isNumeric" (.fieldS "ImmediateOriginContactPhoneNumber")), true)] },
  -- CreditTotalIndicator: reject when CreditTotalIndicatorField() ne "" && !isCreditTotalIndicator(CreditTotalIndicator)
  { field := "CreditTotalIndicator", path := [((.ne (.getter "CreditTotalIndicatorField") (.str [])), true), ((.invalid "isCreditTotalIndicator" (.fieldI "CreditTotalIndicator")), true)] }
]

end Rules

def allRules : List (String × List Site) := [("FileHeader", Rules.fileHeader), ("CashLetterHeader", Rules.cashLetterHeader), ("BundleHeader", Rules.bundleHeader), ("CheckDetail", Rules.checkDetail), ("CheckDetailAddendumA", Rules.checkDetailAddendumA), ("CheckDetailAddendumB", Rules.checkDetailAddendumB), ("CheckDetailAddendumC", Rules.checkDetailAddendumC), ("ReturnDetail", Rules.returnDetail), ("ReturnDetailAddendumA", Rules.returnDetailAddendumA), ("ReturnDetailAddendumB", Rules.returnDetailAddendumB), ("ReturnDetailAddendumC", Rules.returnDetailAddendumC), ("ReturnDetailAddendumD", Rules.returnDetailAddendumD), ("ImageViewDetail", Rules.imageViewDetail), ("ImageViewData", Rules.imageViewData), ("ImageViewAnalysis", Rules.imageViewAnalysis), ("Credit", Rules.credit), ("CreditItem", Rules.creditItem), ("UserGeneral", Rules.userGeneral), ("UserPayeeEndorsement", Rules.userPayeeEndorsement), ("BundleControl", Rules.bundleControl), ("RoutingNumberSummary", Rules.routingNumberSummary), ("CashLetterControl", Rules.cashLetterControl), ("FileControl", Rules.fileControl)]

end Icl.Spec
