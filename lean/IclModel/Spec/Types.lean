/-
Types of the hand-written specification tables and the decidable predicates that relate a
regenerated table (`Gen`) to them.
-/
import IclModel.Layout
namespace Icl.Spec
open Icl

/-- one field of the X9.100-187 layout -/
structure SField where
  /-- Go struct field that holds the value -/
  name : String
  /-- 0-based first column of the field when every variable section is empty -/
  start : Nat
  /-- length fields whose values shift this field to the right -/
  shift : List String := []
  /-- width in bytes (0: sized by `lenField`) -/
  width : Nat
  conv : Conv
  /-- how the reader decodes the columns (`none`: constant / not read) -/
  pk : Option PKind
  lenField : String := ""
deriving DecidableEq, Repr, Inhabited

def getterName (n : String) : String := if n = "recordType" then n else n ++ "Field"

/-- the write-table entry the layout prescribes for a field -/
def SField.toW (f : SField) : WField :=
  { getter := getterName f.name, src := f.name, conv := f.conv, width := f.width,
    lenField := f.lenField, imageOnly := f.conv == .image }

def toWrite (fs : List SField) : List WField := fs.map SField.toW

/-- each field starts where the previous one ended (fixed part), first at column 0 -/
def contiguousFrom : Nat → List SField → Bool
  | _, [] => true
  | p, f :: r => f.start == p && contiguousFrom (p + f.width) r

def Contiguous (fs : List SField) : Bool := contiguousFrom 0 fs

/-- `shift` of each field = the length fields of the variable sections before it -/
def shiftsFrom : List String → List SField → Bool
  | _, [] => true
  | sh, f :: r => f.shift == sh && shiftsFrom (if f.lenField = "" then sh else sh ++ [f.lenField]) r

def totalWidth (fs : List SField) : Nat := fixedWidth (toWrite fs)

/-! ### parse side: the assignments of a `Parse()` body against the layout -/

/-- (dst, lo const, lo shift fields, hi const, hi shift fields, kind) -/
abbrev PAssign := String × Nat × List String × Nat × List String × PKind

def resolve (binds : List (String × String)) (v : String) : String :=
  match binds.find? (fun b => b.1 == v) with
  | some b => b.2
  | none => "?" ++ v

/-- the assignments of a parse table, length variables resolved to the fields they are parsed from -/
def assignsOf : List PStmt → List (String × String) → List PAssign
  | [], _ => []
  | .bind var field :: r, bs => assignsOf r ((var, field) :: bs)
  | .assign dst lo hi k _ :: r, bs =>
      (dst, lo.c, lo.vars.map (resolve bs), hi.c, hi.vars.map (resolve bs), k) :: assignsOf r bs
  | _ :: r, bs => assignsOf r bs

/-- what the layout prescribes: one assignment per decoded field, in column order -/
def expectedAssigns : List SField → List PAssign
  | [] => []
  | f :: r =>
    match f.pk with
    | none => expectedAssigns r
    | some k =>
      (f.name, f.start, f.shift, f.start + f.width,
        (if f.lenField = "" then f.shift else f.shift ++ [f.lenField]), k) :: expectedAssigns r

/-- direct decoding of the layout: bind every length field, then read every decoded field from its
columns, through the character-set decoder except for image bytes (no guards: conformant records are long enough by construction) -/
def toParse (fs : List SField) : List PStmt :=
  [PStmt.setType] ++
  fs.flatMap (fun f =>
    (match f.pk with
     | some k => [PStmt.assign f.name ⟨f.start, f.shift⟩
                    ⟨f.start + f.width, if f.lenField = "" then f.shift else f.shift ++ [f.lenField]⟩ k
                    (f.conv != .image)]
     | none => []) ++
    -- a field that is the length of a later section is bound (under its own name) right after it is read
    (if fs.any (fun g => g.lenField == f.name) then [PStmt.bind f.name f.name] else []))

/-- the regenerated `Parse()` reads exactly the prescribed columns into the prescribed fields -/
def ParseMatches (fs : List SField) (ps : List PStmt) : Bool :=
  assignsOf ps [] == expectedAssigns fs && !ps.contains .opaque

end Icl.Spec
