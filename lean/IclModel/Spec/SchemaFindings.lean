/-
Spec — recorded findings for C20: the members of the server's JSON model that the shipped Go client
(client/model_*.go, generated from openapi.yaml) cannot carry.  One entry per (server struct, JSON
member).  Committed; any member NOT in this list that fails `mismatches` is a new violation, any entry
that stops failing makes `C20.wire_mismatches` fail too (the list must then be shortened).
-/
import IclModel.Schema
namespace Icl.Spec

def knownMismatches : List (String × String × String) := [
  ("Bundle", "id", "no client member"),
  ("BundleControl", "bundleTotalAmount", "type int32 cannot hold int"),
  ("BundleControl", "micrValidTotalAmount", "type int32 cannot hold int"),
  ("CashLetter", "id", "no client member"),
  ("CashLetter", "credit", "no client member"),
  ("CashLetter", "creditItem", "no client member"),
  ("CashLetterControl", "cashLetterTotalAmount", "type int32 cannot hold int"),
  ("CheckDetail", "itemAmount", "type int32 cannot hold int"),
  ("CheckDetailAddendumB", "imageReferenceKeyLength", "no client member"),
  ("CheckDetailAddendumB", "description", "no client member"),
  ("CheckDetailAddendumC", "endorsingBankItemSequenceNumber", "no client member"),
  ("Credit", "*", "no client struct"),
  ("CreditItem", "itemAmount", "type int32 cannot hold int"),
  ("CreditItem", "accountTypeCode", "no client member"),
  ("File", "bundle", "no client member"),
  ("FileControl", "fileTotalAmount", "type int32 cannot hold int"),
  ("ImageViewData", "eceInstitutionItemSequenceNumber", "no client member"),
  ("ImageViewData", "securityOriginatorName", "no client member"),
  ("ImageViewData", "securityAuthenticatorName", "no client member"),
  ("ImageViewData", "securityKeyName", "no client member"),
  ("ImageViewData", "clippingOrigin", "no client member"),
  ("ImageViewData", "clippingCoordinateH1", "no client member"),
  ("ImageViewData", "clippingCoordinateH2", "no client member"),
  ("ImageViewData", "clippingCoordinateV1", "no client member"),
  ("ImageViewData", "clippingCoordinateV2", "no client member"),
  ("ImageViewData", "lengthImageReferenceKey", "no client member"),
  ("ImageViewData", "imageReferenceKey", "no client member"),
  ("ImageViewData", "lengthDigitalSignature", "no client member"),
  ("ImageViewData", "digitalSignature", "no client member"),
  ("ImageViewData", "lengthImageData", "no client member"),
  ("ImageViewData", "imageData", "no client member"),
  ("ReturnDetail", "itemAmount", "type int32 cannot hold int"),
  ("ReturnDetail", "bundleBusinessDate", "no client member"),
  ("ReturnDetailAddendumC", "imageReferenceKeyLength", "no client member"),
  ("ReturnDetailAddendumC", "description", "no client member"),
  ("ReturnDetailAddendumD", "endorsingBankItemSequenceNumber", "no client member"),
  ("RoutingNumberSummary", "routingNumberTotalAmount", "type int32 cannot hold int"),
  ("UserGeneral", "*", "no client struct"),
  ("UserPayeeEndorsement", "*", "no client struct")
]

end Icl.Spec
