/- The state and the control skeleton the models assume: transcribed census of package-level variables, of the members of the stateful types, of the places where the process environment or the FRB compatibility mode is consulted, and of the calls, conditions and returns of every function of the server packages (compared with the regenerated census, Props/StateCensus.lean).  A new entry means new state, a new mode-dependent path or a new branch of a handler: extend the models (or argue here why it changes nothing) before extending this list. -/
namespace Icl.Spec.State

/-- every package-level variable: (package directory:name, declared type or kind of initialiser) -/
def globals : List (String × String) := [
  (".:AdministrativeReturnCodeDict", "map[string]*AdministrativeReturnCode{..}"),
  (".:CustomerReturnCodeDict", "map[string]*CustomerReturnCode{..}"),
  (".:ErrNilFile", "errors.New(..)"),
  (".:alphanumericRegex", "regexp.MustCompile(..)"),
  (".:alphanumericRegexSpecial", "regexp.MustCompile(..)"),
  (".:msgAlphanumeric", "string"),
  (".:msgAlphanumericSpecial", "string"),
  (".:msgBundleAddendum", "string"),
  (".:msgBundleAddendumCount", "string"),
  (".:msgBundleEntries", "string"),
  (".:msgBundleImageDetailCount", "string"),
  (".:msgBundleMixedEntries", "string"),
  (".:msgCashLetterBundleEntries", "string"),
  (".:msgCashLetterRoutingNumber", "string"),
  (".:msgDocumentationTypeIndicator", "string"),
  (".:msgFieldInclusion", "string"),
  (".:msgFileBundleControl", "string"),
  (".:msgFileBundleInside", "string"),
  (".:msgFileBundleOutside", "string"),
  (".:msgFileCashLetterControl", "string"),
  (".:msgFileCashLetterID", "string"),
  (".:msgFileCashLetterInside", "string"),
  (".:msgFileControl", "string"),
  (".:msgFileCredit", "string"),
  (".:msgFileCreditItem", "string"),
  (".:msgFileHeader", "string"),
  (".:msgFileRoutingNumberSummary", "string"),
  (".:msgInvalid", "string"),
  (".:msgInvalidDate", "string"),
  (".:msgMandatoryRecord", "string"),
  (".:msgNumeric", "string"),
  (".:msgRecordLength", "string"),
  (".:msgRecordType", "string"),
  (".:msgReturnCode", "string"),
  (".:msgUnknownRecordType", "string"),
  (".:numericRegex", "regexp.MustCompile(..)"),
  ("cmd/server:adminAddr", "flag.String(..)"),
  ("cmd/server:flagLogFormat", "flag.String(..)"),
  ("cmd/server:httpAddr", "flag.String(..)"),
  ("internal/files/v2:maxReaderBufferSize", "func(){..}()"),
  ("internal/files:errNoCashLetterId", "errors.New(..)"),
  ("internal/files:errNoFileId", "errors.New(..)"),
  ("internal/files:maxReaderBufferSize", "determineBufferSize(..)"),
  ("internal/files:updateMu", "sync.Mutex"),
  ("internal/metrics:baseIdRegex", "regexp.MustCompile(..)"),
  ("internal/metrics:routeHistogram", "prometheus.NewHistogramFrom(..)")
]

/-- the members of the stateful types: (package directory:type, members) -/
def fields : List (String × String) := [
  (".:Bundle", "ID string; BundleHeader *BundleHeader; Checks []*CheckDetail; Returns []*ReturnDetail; BundleControl *BundleControl"),
  (".:CashLetter", "ID string; CashLetterHeader *CashLetterHeader; Bundles []*Bundle; Credits []*Credit; CreditItems []*CreditItem; RoutingNumberSummary []*RoutingNumberSummary; currentBundle *Bundle; currentRoutingNumberSummary *RoutingNumberSummary; CashLetterControl *CashLetterControl"),
  (".:File", "ID string; Header FileHeader; CashLetters []CashLetter; Bundles []Bundle; Control FileControl"),
  (".:ParseError", "Line int; Record string; Err error"),
  (".:Reader", "scanner *bufio.Scanner; File File; decodeLine DecodeLineFn; line string; currentCashLetter CashLetter; lineNum int; recordName string; ebcdic bool"),
  (".:Writer", "w *bufio.Writer; lineNum int; VariableLineLength bool; EbcdicEncoding bool"),
  (".:converters", ""),
  (".:validator", ""),
  ("internal/files/v2:Controller", "logger log.Logger; repo storage.ICLFileRepository"),
  ("internal/responder:Responder", "logger log.Logger; w http.ResponseWriter; r *http.Request; (embedded) optionalHeaders"),
  ("internal/responder:optionalHeaders", "location string"),
  ("internal/storage:memoryICLFileRepository", "mu sync.Mutex; files map[string]*imagecashletter.File")
]

/-- the control skeleton of every function of the server packages: its calls (logging and formatting aside) in source
order, its conditions, its returns -/
def skeletons : List (String × List String) := [
  ("internal/files/v2:Controller.AddRoutes", ["call router.PathPrefix", "call router.PathPrefix(\"/v2\").Subrouter", "call v2Routes.\n\tPath", "call v2Routes.\n\tPath(\"/files\").\n\tMethods", "call v2Routes.\n\tPath(\"/files\").\n\tMethods(http.MethodPost).\n\tHandlerFunc"]),
  ("internal/files/v2:Controller.createFile", ["call metrics.WrapResponseWriter", "call responder.NewResponder", "call r.Header.Get", "switch  {", "case strings.Contains(contentType, \"application/json\"):", "call c.fileFromJSON", "case strings.Contains(contentType, \"multipart/form-data\"):", "call c.fileFromForm", "case :", "}", "if err != nil {", "call c.logger.Error", "call c.logger.Error().LogErrorf", "call respond.Error", "return ", "}", "call c.repo.SaveFile", "if err != nil {", "call c.logger.Error", "call c.logger.Error().LogErrorf", "call respond.Error", "return ", "}", "call respond.WithLocation", "call expectingFile", "if expectingFile(r) {", "call respond.File", "return ", "}", "call respond.JSON"]),
  ("internal/files/v2:Controller.fileFromForm", ["call int64", "call r.ParseMultipartForm", "if err != nil {", "return nil, <call>", "}", "call r.FormFile", "if err != nil {", "return nil, <call>", "}", "call imagecashletter.ReadVariableLineLengthOption", "call imagecashletter.BufferSizeOption", "call hdr.Header.Get", "if contentType != \"text/plain\" {", "call imagecashletter.ReadEbcdicEncodingOption", "call append", "}", "call imagecashletter.NewReader", "call imagecashletter.NewReader(formFile, opts...).Read", "if err != nil {", "return nil, <call>", "}", "call uuid.NewString", "return &file, nil"]),
  ("internal/files/v2:Controller.fileFromJSON", ["call io.ReadAll", "if err != nil {", "return nil, <call>", "}", "call imagecashletter.FileFromJSON", "if err != nil {", "return nil, <call>", "}", "call uuid.NewString", "return file, nil"]),
  ("internal/files/v2:NewController", ["return Controller{\n\tlogger:\tlogger,\n\trepo:\tfileRepo,\n}"]),
  ("internal/files/v2:expectingFile", ["call r.Header.Get", "return mimeType == \"application/octet-stream\" || mimeType == \"text/plain\""]),
  ("internal/files:AppendRoutes", ["call getFiles", "call r.Methods", "call r.Methods(\"GET\").Path", "call r.Methods(\"GET\").Path(\"/files\").HandlerFunc", "call createFile", "call r.Methods", "call r.Methods(\"POST\").Path", "call r.Methods(\"POST\").Path(\"/files/create\").HandlerFunc", "call getFile", "call r.Methods", "call r.Methods(\"GET\").Path", "call r.Methods(\"GET\").Path(\"/files/{fileId}\").HandlerFunc", "call updateFileHeader", "call r.Methods", "call r.Methods(\"POST\").Path", "call r.Methods(\"POST\").Path(\"/files/{fileId}\").HandlerFunc", "call deleteFile", "call r.Methods", "call r.Methods(\"DELETE\").Path", "call r.Methods(\"DELETE\").Path(\"/files/{fileId}\").HandlerFunc", "call getFileContents", "call r.Methods", "call r.Methods(\"GET\").Path", "call r.Methods(\"GET\").Path(\"/files/{fileId}/contents\").HandlerFunc", "call validateFile", "call r.Methods", "call r.Methods(\"GET\").Path", "call r.Methods(\"GET\").Path(\"/files/{fileId}/validate\").HandlerFunc", "call addCashLetterToFile", "call r.Methods", "call r.Methods(\"POST\").Path", "call r.Methods(\"POST\").Path(\"/files/{fileId}/cashLetters\").HandlerFunc", "call removeCashLetterFromFile", "call r.Methods", "call r.Methods(\"DELETE\").Path", "call r.Methods(\"DELETE\").Path(\"/files/{fileId}/cashLetters/{cashLetterId}\").HandlerFunc"]),
  ("internal/files:addCashLetterToFile", ["func{", "call moovhttp.GetRequestID", "if requestID != \"\" {", "}", "call metrics.WrapResponseWriter", "call json.NewDecoder", "call json.NewDecoder(r.Body).Decode", "if err != nil {", "call moovhttp.Problem", "return ", "}", "call getFileId", "if fileId == \"\" {", "return ", "}", "call updateMu.Lock", "defer updateMu.Unlock", "call repo.GetFile", "if err != nil {", "call moovhttp.Problem", "return ", "}", "if file == nil {", "call http.NotFound", "return ", "}", "call append", "call repo.SaveFile", "if err != nil {", "call moovhttp.Problem", "return ", "}", "call w.Header", "call w.Header().Set(\"Content-Type\", \"application/json; charset=utf-8\")", "call w.WriteHeader(http.StatusOK)", "call json.NewEncoder", "call json.NewEncoder(w).Encode", "}", "return <func>"]),
  ("internal/files:createFile", ["func{", "call moovhttp.GetRequestID", "if requestID != \"\" {", "}", "call metrics.WrapResponseWriter", "call imagecashletter.NewFile", "if req.ID == \"\" {", "call base.ID", "}", "call io.ReadAll", "if err != nil {", "call moovhttp.Problem", "return ", "}", "call r.Header.Get", "if strings.Contains(h, \"application/json\") {", "call imagecashletter.FileFromJSON", "if err != nil {", "call moovhttp.Problem", "return ", "} else {", "}", "} else {", "call bytes.NewReader", "call imagecashletter.ReadVariableLineLengthOption", "call imagecashletter.ReadEbcdicEncodingOption", "call imagecashletter.BufferSizeOption", "call imagecashletter.NewReader", "call imagecashletter.NewReader(reader, opts...).Read", "if err != nil {", "call moovhttp.Problem", "return ", "} else {", "}", "}", "if req.ID == \"\" {", "call base.ID", "}", "call updateMu.Lock", "call repo.SaveFile", "call updateMu.Unlock", "if err != nil {", "call moovhttp.Problem", "return ", "}", "call w.Header", "call w.Header().Set(\"Content-Type\", \"application/json; charset=utf-8\")", "call w.WriteHeader(http.StatusCreated)", "call json.NewEncoder", "call json.NewEncoder(w).Encode", "}", "return <func>"]),
  ("internal/files:deleteFile", ["func{", "call moovhttp.GetRequestID", "if requestID != \"\" {", "}", "call metrics.WrapResponseWriter", "call getFileId", "if fileId == \"\" {", "return ", "}", "call updateMu.Lock", "defer updateMu.Unlock", "call repo.GetFile", "if err != nil {", "call moovhttp.Problem", "return ", "}", "if file == nil {", "call http.NotFound", "return ", "}", "call repo.DeleteFile", "if err != nil {", "call moovhttp.Problem", "return ", "}", "call w.Header", "call w.Header().Set(\"Content-Type\", \"application/json; charset=utf-8\")", "call w.WriteHeader(http.StatusOK)", "call json.NewEncoder", "call json.NewEncoder(w).Encode", "}", "return <func>"]),
  ("internal/files:determineBufferSize", ["call os.LookupEnv", "if exists {", "call int", "return <call>", "}", "return nominal"]),
  ("internal/files:getCashLetterId", ["call mux.Vars", "if !ok || v == \"\" {", "call moovhttp.Problem", "return \"\"", "}", "return v"]),
  ("internal/files:getFile", ["func{", "call moovhttp.GetRequestID", "if requestID != \"\" {", "}", "call metrics.WrapResponseWriter", "call getFileId", "if fileId == \"\" {", "return ", "}", "call repo.GetFile", "if err != nil {", "call moovhttp.Problem", "return ", "}", "if file == nil {", "call http.NotFound", "return ", "}", "call w.Header", "call w.Header().Set(\"Content-Type\", \"application/json; charset=utf-8\")", "call w.WriteHeader(http.StatusOK)", "call json.NewEncoder", "call json.NewEncoder(w).Encode", "}", "return <func>"]),
  ("internal/files:getFileContents", ["func{", "call moovhttp.GetRequestID", "if requestID != \"\" {", "}", "call metrics.WrapResponseWriter", "call getFileId", "if fileId == \"\" {", "return ", "}", "call repo.GetFile", "if err != nil {", "call moovhttp.Problem", "return ", "}", "if file == nil {", "call http.NotFound", "return ", "}", "call imagecashletter.WriteVariableLineLengthOption", "call imagecashletter.WriteEbcdicEncodingOption", "call imagecashletter.NewWriter", "call imagecashletter.NewWriter(&contents, opts...).Write", "if err != nil {", "call moovhttp.Problem", "return ", "}", "call w.Header", "call w.Header().Set(\"Content-Type\", \"text/plain\")", "call w.WriteHeader(http.StatusOK)", "call contents.Bytes", "call w.Write", "}", "return <func>"]),
  ("internal/files:getFileId", ["call mux.Vars", "if !ok || v == \"\" {", "call moovhttp.Problem", "return \"\"", "}", "return v"]),
  ("internal/files:getFiles", ["func{", "call moovhttp.GetRequestID", "if requestID != \"\" {", "}", "call metrics.WrapResponseWriter", "call repo.GetFiles", "if err != nil {", "call moovhttp.Problem", "return ", "}", "call len", "call len", "call w.Header", "call w.Header().Set(\"X-Total-Count\", <call>)", "call w.Header", "call w.Header().Set(\"Content-Type\", \"application/json; charset=utf-8\")", "call w.WriteHeader(http.StatusOK)", "call json.NewEncoder", "call json.NewEncoder(w).Encode", "}", "return <func>"]),
  ("internal/files:removeCashLetterFromFile", ["func{", "call moovhttp.GetRequestID", "if requestID != \"\" {", "}", "call metrics.WrapResponseWriter", "call getFileId", "if fileId == \"\" {", "return ", "}", "call getCashLetterId", "if cashLetterId == \"\" {", "return ", "}", "call updateMu.Lock", "defer updateMu.Unlock", "call repo.GetFile", "if err != nil {", "call moovhttp.Problem", "return ", "}", "if file == nil {", "call http.NotFound", "return ", "}", "call len", "call make", "range file.CashLetters {", "if file.CashLetters[i].ID != cashLetterId {", "call append", "}", "}", "call repo.SaveFile", "if err != nil {", "call moovhttp.Problem", "return ", "}", "call w.Header", "call w.Header().Set(\"Content-Type\", \"application/json; charset=utf-8\")", "call w.WriteHeader(http.StatusOK)", "call json.NewEncoder", "call json.NewEncoder(w).Encode", "}", "return <func>"]),
  ("internal/files:updateFileHeader", ["func{", "call moovhttp.GetRequestID", "if requestID != \"\" {", "}", "call metrics.WrapResponseWriter", "call json.NewDecoder", "call json.NewDecoder(r.Body).Decode", "if err != nil {", "call moovhttp.Problem", "return ", "}", "call getFileId", "if fileId == \"\" {", "return ", "}", "call updateMu.Lock", "defer updateMu.Unlock", "call repo.GetFile", "if err != nil {", "call moovhttp.Problem", "return ", "}", "if file == nil {", "call http.NotFound", "return ", "}", "call repo.SaveFile", "if err != nil {", "call moovhttp.Problem", "return ", "}", "call w.Header", "call w.Header().Set(\"Content-Type\", \"application/json; charset=utf-8\")", "call w.WriteHeader(http.StatusCreated)", "call json.NewEncoder", "call json.NewEncoder(w).Encode", "}", "return <func>"]),
  ("internal/files:validateFile", ["func{", "call moovhttp.GetRequestID", "if requestID != \"\" {", "}", "call metrics.WrapResponseWriter", "call getFileId", "if fileId == \"\" {", "return ", "}", "call repo.GetFile", "if err != nil {", "call moovhttp.Problem", "return ", "}", "if file == nil {", "call http.NotFound", "return ", "}", "call len", "call make", "range file.CashLetters {", "call len", "call make", "range cl.Bundles {", "if b != nil {", "}", "}", "}", "call file.Create", "if err != nil {", "call moovhttp.Problem", "return ", "}", "call w.Header", "call w.Header().Set(\"Content-Type\", \"application/json; charset=utf-8\")", "call w.WriteHeader(http.StatusOK)", "call json.NewEncoder", "call json.NewEncoder(w).Encode", "}", "return <func>"]),
  ("internal/responder:NewResponder", ["return &Responder{\n\tlogger:\tlogger,\n\tw:\tw,\n\tr:\tr,\n}"]),
  ("internal/responder:Responder.Error", ["if status >= 500 {", "call r.w.WriteHeader(status)", "return ", "}", "call r.w.Header", "call r.w.Header().Set(\"Content-Type\", \"application/json; charset=UTF-8\")", "call r.w.WriteHeader(status)", "call err.Error", "call json.NewEncoder", "call json.NewEncoder(r.w).Encode", "if err != nil {", "call r.logger.LogErrorf", "call r.w.WriteHeader(http.StatusInternalServerError)", "return ", "}"]),
  ("internal/responder:Responder.File", ["call imagecashletter.WriteVariableLineLengthOption", "call r.r.Header.Get", "switch mimeType {", "case \"application/octet-stream\":", "call r.w.Header", "call r.w.Header().Set(\"Content-Type\", \"application/octet-stream\")", "call imagecashletter.WriteEbcdicEncodingOption", "call append", "case \"text/plain\":", "call r.w.Header", "call r.w.Header().Set(\"Content-Type\", \"text/plain\")", "case :", "call r.logger.LogErrorf", "call r.w.WriteHeader(http.StatusInternalServerError)", "return ", "}", "call r.optionalHeaders.apply", "call r.w.Header", "call r.w.Header().Set(\"Content-Disposition\", \"attachment; filename=\" + name)", "call r.w.WriteHeader(status)", "call imagecashletter.NewWriter", "call imagecashletter.NewWriter(r.w, opts...).Write", "if err != nil {", "call r.logger.LogErrorf", "call r.w.WriteHeader(http.StatusInternalServerError)", "return ", "}"]),
  ("internal/responder:Responder.JSON", ["call r.optionalHeaders.apply", "call r.w.Header", "call r.w.Header().Set(\"Content-Type\", \"application/json; charset=UTF-8\")", "call r.w.WriteHeader(status)", "call json.NewEncoder", "call json.NewEncoder(r.w).Encode", "if err != nil {", "call r.logger.LogErrorf", "call r.w.WriteHeader(http.StatusInternalServerError)", "return ", "}"]),
  ("internal/responder:Responder.WithLocation", ["return r"]),
  ("internal/responder:optionalHeaders.apply", ["if h.location != \"\" {", "call w.Header", "call w.Header().Set(\"Location\", h.location)", "}"]),
  ("internal/storage:NewInMemoryRepo", ["call make", "return &memoryICLFileRepository{\n\tfiles: make(map[string]*imagecashletter.File),\n}"]),
  ("internal/storage:memoryICLFileRepository.DeleteFile", ["call r.mu.Lock", "defer r.mu.Unlock", "if fileId == \"\" {", "return <call>", "}", "call delete", "return nil"]),
  ("internal/storage:memoryICLFileRepository.GetFile", ["call r.mu.Lock", "defer r.mu.Unlock", "range r.files {", "if r.files[i].ID == fileId {", "return &f, nil", "}", "}", "return nil, nil"]),
  ("internal/storage:memoryICLFileRepository.GetFiles", ["call r.mu.Lock", "defer r.mu.Unlock", "range r.files {", "call append", "}", "return out, nil"]),
  ("internal/storage:memoryICLFileRepository.SaveFile", ["call r.mu.Lock", "defer r.mu.Unlock", "if file.ID == \"\" {", "return <call>", "}", "return nil"])
]

/-- where the process environment or the FRB compatibility mode is consulted: (package directory:function, call) -/
def envReads : List (String × String) := [
  (".:CheckDetailAddendumA.fieldInclusion", "IsFRBCompatibilityModeEnabled()"),
  (".:CheckDetailAddendumA.fieldInclusion", "IsFRBCompatibilityModeEnabled()"),
  (".:CheckDetailAddendumC.fieldInclusion", "IsFRBCompatibilityModeEnabled()"),
  (".:ImageViewDetail.Validate", "IsFRBCompatibilityModeEnabled()"),
  (".:ImageViewDetail.fieldInclusion", "IsFRBCompatibilityModeEnabled()"),
  (".:IsFRBCompatibilityModeEnabled", "os.Getenv(\"FRB_COMPATIBILITY_MODE\")"),
  (".:ReturnDetailAddendumA.fieldInclusion", "IsFRBCompatibilityModeEnabled()"),
  (".:handleIBM1047Compatibility", "IsFRBCompatibilityModeEnabled()"),
  ("cmd/server:main", "os.Getenv(\"HTTPS_CERT_FILE\")"),
  ("cmd/server:main", "os.Getenv(\"HTTPS_KEY_FILE\")"),
  ("internal/files/v2:(package variable initialiser)", "os.LookupEnv(\"READER_BUFFER_SIZE\")"),
  ("internal/files:determineBufferSize", "os.LookupEnv(env)")
]

end Icl.Spec.State
