/- The state the models assume: transcribed census of package-level variables and of the members of the stateful types (compared with the regenerated census by `decide`, Props/StateCensus.lean).  A new entry means new state: extend the models (or argue here why it carries nothing between calls) before extending this list. -/
namespace Icl.Spec.State

/-- every package-level variable: (package directory:name, declared type or kind of initialiser) -/
def globals : List (String × String) := [
  (".:AdministrativeReturnCodeDict", "map[string]*AdministrativeReturnCode{..}"),
  (".:CustomerReturnCodeDict", "map[string]*CustomerReturnCode{..}"),
  (".:ErrNilFile", "errors.New(..)"),
  (".:alphanumericRegex", "regexp.MustCompile(..)"),
  (".:alphanumericRegexSpecial", "regexp.MustCompile(..)"),
  (".:msgAlphanumeric", "string"),
  (".:msgAlphanumericSpecial", "string"),
  (".:msgBundleAddendum", "string"),
  (".:msgBundleAddendumCount", "string"),
  (".:msgBundleEntries", "string"),
  (".:msgBundleImageDetailCount", "string"),
  (".:msgBundleMixedEntries", "string"),
  (".:msgCashLetterBundleEntries", "string"),
  (".:msgCashLetterRoutingNumber", "string"),
  (".:msgDocumentationTypeIndicator", "string"),
  (".:msgFieldInclusion", "string"),
  (".:msgFileBundleControl", "string"),
  (".:msgFileBundleInside", "string"),
  (".:msgFileBundleOutside", "string"),
  (".:msgFileCashLetterControl", "string"),
  (".:msgFileCashLetterID", "string"),
  (".:msgFileCashLetterInside", "string"),
  (".:msgFileControl", "string"),
  (".:msgFileCredit", "string"),
  (".:msgFileCreditItem", "string"),
  (".:msgFileHeader", "string"),
  (".:msgFileRoutingNumberSummary", "string"),
  (".:msgInvalid", "string"),
  (".:msgInvalidDate", "string"),
  (".:msgMandatoryRecord", "string"),
  (".:msgNumeric", "string"),
  (".:msgRecordLength", "string"),
  (".:msgRecordType", "string"),
  (".:msgReturnCode", "string"),
  (".:msgUnknownRecordType", "string"),
  (".:numericRegex", "regexp.MustCompile(..)"),
  ("cmd/server:adminAddr", "flag.String(..)"),
  ("cmd/server:flagLogFormat", "flag.String(..)"),
  ("cmd/server:httpAddr", "flag.String(..)"),
  ("internal/files/v2:maxReaderBufferSize", "func(){..}()"),
  ("internal/files:errNoCashLetterId", "errors.New(..)"),
  ("internal/files:errNoFileId", "errors.New(..)"),
  ("internal/files:maxReaderBufferSize", "determineBufferSize(..)"),
  ("internal/files:updateMu", "sync.Mutex"),
  ("internal/metrics:baseIdRegex", "regexp.MustCompile(..)"),
  ("internal/metrics:routeHistogram", "prometheus.NewHistogramFrom(..)")
]

/-- the members of the stateful types: (package directory:type, members) -/
def fields : List (String × String) := [
  (".:Bundle", "ID string; BundleHeader *BundleHeader; Checks []*CheckDetail; Returns []*ReturnDetail; BundleControl *BundleControl"),
  (".:CashLetter", "ID string; CashLetterHeader *CashLetterHeader; Bundles []*Bundle; Credits []*Credit; CreditItems []*CreditItem; RoutingNumberSummary []*RoutingNumberSummary; currentBundle *Bundle; currentRoutingNumberSummary *RoutingNumberSummary; CashLetterControl *CashLetterControl"),
  (".:File", "ID string; Header FileHeader; CashLetters []CashLetter; Bundles []Bundle; Control FileControl"),
  (".:ParseError", "Line int; Record string; Err error"),
  (".:Reader", "scanner *bufio.Scanner; File File; decodeLine DecodeLineFn; line string; currentCashLetter CashLetter; lineNum int; recordName string; ebcdic bool"),
  (".:Writer", "w *bufio.Writer; lineNum int; VariableLineLength bool; EbcdicEncoding bool"),
  (".:converters", ""),
  (".:validator", ""),
  ("internal/files/v2:Controller", "logger log.Logger; repo storage.ICLFileRepository"),
  ("internal/responder:Responder", "logger log.Logger; w http.ResponseWriter; r *http.Request; (embedded) optionalHeaders"),
  ("internal/responder:optionalHeaders", "location string"),
  ("internal/storage:memoryICLFileRepository", "mu sync.Mutex; files map[string]*imagecashletter.File")
]

end Icl.Spec.State
