/-
Spec — hand transcription of the X9.100-187 record layouts (docs/file-structure.md, the column
comments of each Parse(), X9.100-187-2013 for the Credit (61) record the doc omits).  Positions are
0-based first columns; where the doc's table has a typo (records 28, 31, 33, 35, 70, 85: sizes that
contradict the positions next to them) the positions of the standard are used.  `conv` is the
justification/fill class the library documents for the Go field; the N-typed code fields that the
library keeps as strings (always full width when valid) are transcribed as `alpha`, see DESIGN.md.
This file is committed and reviewed; it is NOT regenerated.
-/
import IclModel.Spec.Types
namespace Icl.Spec
open Icl

/-- 01 FileHeader -/
def fileHeader : List SField := [
  { name := "recordType", start := 0, shift := [], width := 2, conv := .lit, pk := none, lenField := "" },
  { name := "StandardLevel", start := 2, shift := [], width := 2, conv := .alpha, pk := some .str, lenField := "" },
  { name := "TestFileIndicator", start := 4, shift := [], width := 1, conv := .alpha, pk := some .str, lenField := "" },
  { name := "ImmediateDestination", start := 5, shift := [], width := 9, conv := .zstr, pk := some .str, lenField := "" },
  { name := "ImmediateOrigin", start := 14, shift := [], width := 9, conv := .zstr, pk := some .str, lenField := "" },
  { name := "FileCreationDate", start := 23, shift := [], width := 8, conv := .date, pk := some .date, lenField := "" },
  { name := "FileCreationTime", start := 31, shift := [], width := 4, conv := .time, pk := some .time, lenField := "" },
  { name := "ResendIndicator", start := 35, shift := [], width := 1, conv := .alpha, pk := some .str, lenField := "" },
  { name := "ImmediateDestinationName", start := 36, shift := [], width := 18, conv := .alpha, pk := some .str, lenField := "" },
  { name := "ImmediateOriginName", start := 54, shift := [], width := 18, conv := .alpha, pk := some .str, lenField := "" },
  { name := "FileIDModifier", start := 72, shift := [], width := 1, conv := .alpha, pk := some .str, lenField := "" },
  { name := "CountryCode", start := 73, shift := [], width := 2, conv := .alpha, pk := some .str, lenField := "" },
  { name := "UserField", start := 75, shift := [], width := 4, conv := .alpha, pk := some .str, lenField := "" },
  { name := "CompanionDocumentIndicator", start := 79, shift := [], width := 1, conv := .alpha, pk := some .str, lenField := "" }
]

/-- 10 CashLetterHeader -/
def cashLetterHeader : List SField := [
  { name := "recordType", start := 0, shift := [], width := 2, conv := .lit, pk := none, lenField := "" },
  { name := "CollectionTypeIndicator", start := 2, shift := [], width := 2, conv := .alpha, pk := some .str, lenField := "" },
  { name := "DestinationRoutingNumber", start := 4, shift := [], width := 9, conv := .zstr, pk := some .str, lenField := "" },
  { name := "ECEInstitutionRoutingNumber", start := 13, shift := [], width := 9, conv := .zstr, pk := some .str, lenField := "" },
  { name := "CashLetterBusinessDate", start := 22, shift := [], width := 8, conv := .date, pk := some .date, lenField := "" },
  { name := "CashLetterCreationDate", start := 30, shift := [], width := 8, conv := .date, pk := some .date, lenField := "" },
  { name := "CashLetterCreationTime", start := 38, shift := [], width := 4, conv := .time, pk := some .time, lenField := "" },
  { name := "RecordTypeIndicator", start := 42, shift := [], width := 1, conv := .alpha, pk := some .str, lenField := "" },
  { name := "DocumentationTypeIndicator", start := 43, shift := [], width := 1, conv := .alpha, pk := some .str, lenField := "" },
  { name := "CashLetterID", start := 44, shift := [], width := 8, conv := .alpha, pk := some .str, lenField := "" },
  { name := "OriginatorContactName", start := 52, shift := [], width := 14, conv := .alpha, pk := some .str, lenField := "" },
  { name := "OriginatorContactPhoneNumber", start := 66, shift := [], width := 10, conv := .alpha, pk := some .str, lenField := "" },
  { name := "FedWorkType", start := 76, shift := [], width := 1, conv := .alpha, pk := some .str, lenField := "" },
  { name := "ReturnsIndicator", start := 77, shift := [], width := 1, conv := .alpha, pk := some .str, lenField := "" },
  { name := "UserField", start := 78, shift := [], width := 1, conv := .alpha, pk := some .str, lenField := "" },
  { name := "reserved", start := 79, shift := [], width := 1, conv := .alpha, pk := none, lenField := "" }
]

/-- 20 BundleHeader -/
def bundleHeader : List SField := [
  { name := "recordType", start := 0, shift := [], width := 2, conv := .lit, pk := none, lenField := "" },
  { name := "CollectionTypeIndicator", start := 2, shift := [], width := 2, conv := .alpha, pk := some .raw, lenField := "" },
  { name := "DestinationRoutingNumber", start := 4, shift := [], width := 9, conv := .zstr, pk := some .str, lenField := "" },
  { name := "ECEInstitutionRoutingNumber", start := 13, shift := [], width := 9, conv := .zstr, pk := some .str, lenField := "" },
  { name := "BundleBusinessDate", start := 22, shift := [], width := 8, conv := .date, pk := some .date, lenField := "" },
  { name := "BundleCreationDate", start := 30, shift := [], width := 8, conv := .date, pk := some .date, lenField := "" },
  { name := "BundleID", start := 38, shift := [], width := 10, conv := .alpha, pk := some .str, lenField := "" },
  { name := "BundleSequenceNumber", start := 48, shift := [], width := 4, conv := .alpha, pk := some .str, lenField := "" },
  { name := "CycleNumber", start := 52, shift := [], width := 2, conv := .alpha, pk := some .str, lenField := "" },
  { name := "ReturnLocationRoutingNumber", start := 54, shift := [], width := 9, conv := .alpha, pk := some .str, lenField := "" },
  { name := "UserField", start := 63, shift := [], width := 5, conv := .alpha, pk := some .str, lenField := "" },
  { name := "reserved", start := 68, shift := [], width := 12, conv := .alpha, pk := none, lenField := "" }
]

/-- 25 CheckDetail -/
def checkDetail : List SField := [
  { name := "recordType", start := 0, shift := [], width := 2, conv := .lit, pk := none, lenField := "" },
  { name := "AuxiliaryOnUs", start := 2, shift := [], width := 15, conv := .nbsm, pk := some .str, lenField := "" },
  { name := "ExternalProcessingCode", start := 17, shift := [], width := 1, conv := .alpha, pk := some .str, lenField := "" },
  { name := "PayorBankRoutingNumber", start := 18, shift := [], width := 8, conv := .zstr, pk := some .str, lenField := "" },
  { name := "PayorBankCheckDigit", start := 26, shift := [], width := 1, conv := .zstr, pk := some .str, lenField := "" },
  { name := "OnUs", start := 27, shift := [], width := 20, conv := .nbsm, pk := some .str, lenField := "" },
  { name := "ItemAmount", start := 47, shift := [], width := 10, conv := .numeric, pk := some .num, lenField := "" },
  { name := "EceInstitutionItemSequenceNumber", start := 57, shift := [], width := 15, conv := .alpha, pk := some .str, lenField := "" },
  { name := "DocumentationTypeIndicator", start := 72, shift := [], width := 1, conv := .alpha, pk := some .str, lenField := "" },
  { name := "ReturnAcceptanceIndicator", start := 73, shift := [], width := 1, conv := .alpha, pk := some .str, lenField := "" },
  { name := "MICRValidIndicator", start := 74, shift := [], width := 1, conv := .numeric, pk := some .num, lenField := "" },
  { name := "BOFDIndicator", start := 75, shift := [], width := 1, conv := .alpha, pk := some .str, lenField := "" },
  { name := "AddendumCount", start := 76, shift := [], width := 2, conv := .numeric, pk := some .num, lenField := "" },
  { name := "CorrectionIndicator", start := 78, shift := [], width := 1, conv := .numeric, pk := some .num, lenField := "" },
  { name := "ArchiveTypeIndicator", start := 79, shift := [], width := 1, conv := .alpha, pk := some .str, lenField := "" }
]

/-- 26 CheckDetailAddendumA -/
def checkDetailAddendumA : List SField := [
  { name := "recordType", start := 0, shift := [], width := 2, conv := .lit, pk := none, lenField := "" },
  { name := "RecordNumber", start := 2, shift := [], width := 1, conv := .numeric, pk := some .num, lenField := "" },
  { name := "ReturnLocationRoutingNumber", start := 3, shift := [], width := 9, conv := .zstr, pk := some .str, lenField := "" },
  { name := "BOFDEndorsementDate", start := 12, shift := [], width := 8, conv := .date, pk := some .date, lenField := "" },
  { name := "BOFDItemSequenceNumber", start := 20, shift := [], width := 15, conv := .alpha, pk := some .str, lenField := "" },
  { name := "BOFDAccountNumber", start := 35, shift := [], width := 18, conv := .alpha, pk := some .str, lenField := "" },
  { name := "BOFDBranchCode", start := 53, shift := [], width := 5, conv := .alpha, pk := some .str, lenField := "" },
  { name := "PayeeName", start := 58, shift := [], width := 15, conv := .alpha, pk := some .str, lenField := "" },
  { name := "TruncationIndicator", start := 73, shift := [], width := 1, conv := .alpha, pk := some .str, lenField := "" },
  { name := "BOFDConversionIndicator", start := 74, shift := [], width := 1, conv := .alpha, pk := some .str, lenField := "" },
  { name := "BOFDCorrectionIndicator", start := 75, shift := [], width := 1, conv := .numeric, pk := some .num, lenField := "" },
  { name := "UserField", start := 76, shift := [], width := 1, conv := .alpha, pk := some .str, lenField := "" },
  { name := "reserved", start := 77, shift := [], width := 3, conv := .alpha, pk := none, lenField := "" }
]

/-- 27 CheckDetailAddendumB -/
def checkDetailAddendumB : List SField := [
  { name := "recordType", start := 0, shift := [], width := 2, conv := .lit, pk := none, lenField := "" },
  { name := "ImageReferenceKeyIndicator", start := 2, shift := [], width := 1, conv := .numeric, pk := some .num, lenField := "" },
  { name := "MicrofilmArchiveSequenceNumber", start := 3, shift := [], width := 15, conv := .alpha, pk := some .str, lenField := "" },
  { name := "LengthImageReferenceKey", start := 18, shift := [], width := 4, conv := .zstr, pk := some .str, lenField := "" },
  { name := "ImageReferenceKey", start := 22, shift := [], width := 0, conv := .alphaVar, pk := some .str, lenField := "LengthImageReferenceKey" },
  { name := "Description", start := 22, shift := ["LengthImageReferenceKey"], width := 15, conv := .alpha, pk := some .str, lenField := "" },
  { name := "UserField", start := 37, shift := ["LengthImageReferenceKey"], width := 4, conv := .alpha, pk := some .str, lenField := "" },
  { name := "reserved", start := 41, shift := ["LengthImageReferenceKey"], width := 5, conv := .alpha, pk := some .str, lenField := "" }
]

/-- 28 CheckDetailAddendumC -/
def checkDetailAddendumC : List SField := [
  { name := "recordType", start := 0, shift := [], width := 2, conv := .lit, pk := none, lenField := "" },
  { name := "RecordNumber", start := 2, shift := [], width := 2, conv := .numeric, pk := some .num, lenField := "" },
  { name := "EndorsingBankRoutingNumber", start := 4, shift := [], width := 9, conv := .zstr, pk := some .str, lenField := "" },
  { name := "BOFDEndorsementBusinessDate", start := 13, shift := [], width := 8, conv := .date, pk := some .date, lenField := "" },
  { name := "EndorsingBankItemSequenceNumber", start := 21, shift := [], width := 15, conv := .alpha, pk := some .str, lenField := "" },
  { name := "TruncationIndicator", start := 36, shift := [], width := 1, conv := .alpha, pk := some .str, lenField := "" },
  { name := "EndorsingBankConversionIndicator", start := 37, shift := [], width := 1, conv := .alpha, pk := some .str, lenField := "" },
  { name := "EndorsingBankCorrectionIndicator", start := 38, shift := [], width := 1, conv := .numeric, pk := some .num, lenField := "" },
  { name := "ReturnReason", start := 39, shift := [], width := 1, conv := .alpha, pk := some .str, lenField := "" },
  { name := "UserField", start := 40, shift := [], width := 19, conv := .alpha, pk := some .str, lenField := "" },
  { name := "EndorsingBankIdentifier", start := 59, shift := [], width := 1, conv := .numeric, pk := some .num, lenField := "" },
  { name := "reserved", start := 60, shift := [], width := 20, conv := .alpha, pk := none, lenField := "" }
]

/-- 31 ReturnDetail -/
def returnDetail : List SField := [
  { name := "recordType", start := 0, shift := [], width := 2, conv := .lit, pk := none, lenField := "" },
  { name := "PayorBankRoutingNumber", start := 2, shift := [], width := 8, conv := .zstr, pk := some .str, lenField := "" },
  { name := "PayorBankCheckDigit", start := 10, shift := [], width := 1, conv := .zstr, pk := some .str, lenField := "" },
  { name := "OnUs", start := 11, shift := [], width := 20, conv := .nbsm, pk := some .str, lenField := "" },
  { name := "ItemAmount", start := 31, shift := [], width := 10, conv := .numeric, pk := some .num, lenField := "" },
  { name := "ReturnReason", start := 41, shift := [], width := 1, conv := .alpha, pk := some .str, lenField := "" },
  { name := "AddendumCount", start := 42, shift := [], width := 2, conv := .numeric, pk := some .num, lenField := "" },
  { name := "DocumentationTypeIndicator", start := 44, shift := [], width := 1, conv := .alpha, pk := some .str, lenField := "" },
  { name := "ForwardBundleDate", start := 45, shift := [], width := 8, conv := .date, pk := some .date, lenField := "" },
  { name := "EceInstitutionItemSequenceNumber", start := 53, shift := [], width := 15, conv := .alpha, pk := some .str, lenField := "" },
  { name := "ExternalProcessingCode", start := 68, shift := [], width := 1, conv := .alpha, pk := some .str, lenField := "" },
  { name := "ReturnNotificationIndicator", start := 69, shift := [], width := 1, conv := .alpha, pk := some .str, lenField := "" },
  { name := "ArchiveTypeIndicator", start := 70, shift := [], width := 1, conv := .alpha, pk := some .str, lenField := "" },
  { name := "TimesReturned", start := 71, shift := [], width := 1, conv := .numeric, pk := some .num, lenField := "" },
  { name := "reserved", start := 72, shift := [], width := 8, conv := .alpha, pk := none, lenField := "" }
]

/-- 32 ReturnDetailAddendumA -/
def returnDetailAddendumA : List SField := [
  { name := "recordType", start := 0, shift := [], width := 2, conv := .lit, pk := none, lenField := "" },
  { name := "RecordNumber", start := 2, shift := [], width := 1, conv := .numeric, pk := some .num, lenField := "" },
  { name := "ReturnLocationRoutingNumber", start := 3, shift := [], width := 9, conv := .zstr, pk := some .str, lenField := "" },
  { name := "BOFDEndorsementDate", start := 12, shift := [], width := 8, conv := .date, pk := some .date, lenField := "" },
  { name := "BOFDItemSequenceNumber", start := 20, shift := [], width := 15, conv := .alpha, pk := some .str, lenField := "" },
  { name := "BOFDAccountNumber", start := 35, shift := [], width := 18, conv := .alpha, pk := some .str, lenField := "" },
  { name := "BOFDBranchCode", start := 53, shift := [], width := 5, conv := .alpha, pk := some .str, lenField := "" },
  { name := "PayeeName", start := 58, shift := [], width := 15, conv := .alpha, pk := some .str, lenField := "" },
  { name := "TruncationIndicator", start := 73, shift := [], width := 1, conv := .alpha, pk := some .str, lenField := "" },
  { name := "BOFDConversionIndicator", start := 74, shift := [], width := 1, conv := .alpha, pk := some .str, lenField := "" },
  { name := "BOFDCorrectionIndicator", start := 75, shift := [], width := 1, conv := .numeric, pk := some .num, lenField := "" },
  { name := "UserField", start := 76, shift := [], width := 1, conv := .alpha, pk := some .str, lenField := "" },
  { name := "reserved", start := 77, shift := [], width := 3, conv := .alpha, pk := none, lenField := "" }
]

/-- 33 ReturnDetailAddendumB -/
def returnDetailAddendumB : List SField := [
  { name := "recordType", start := 0, shift := [], width := 2, conv := .lit, pk := none, lenField := "" },
  { name := "PayorBankName", start := 2, shift := [], width := 18, conv := .alpha, pk := some .str, lenField := "" },
  { name := "AuxiliaryOnUs", start := 20, shift := [], width := 15, conv := .nbsm, pk := some .str, lenField := "" },
  { name := "PayorBankSequenceNumber", start := 35, shift := [], width := 15, conv := .alpha, pk := some .str, lenField := "" },
  { name := "PayorBankBusinessDate", start := 50, shift := [], width := 8, conv := .dateBlankZero, pk := some .date, lenField := "" },
  { name := "PayorAccountName", start := 58, shift := [], width := 22, conv := .alpha, pk := some .str, lenField := "" }
]

/-- 34 ReturnDetailAddendumC -/
def returnDetailAddendumC : List SField := [
  { name := "recordType", start := 0, shift := [], width := 2, conv := .lit, pk := none, lenField := "" },
  { name := "ImageReferenceKeyIndicator", start := 2, shift := [], width := 1, conv := .numeric, pk := some .num, lenField := "" },
  { name := "MicrofilmArchiveSequenceNumber", start := 3, shift := [], width := 15, conv := .alpha, pk := some .str, lenField := "" },
  { name := "LengthImageReferenceKey", start := 18, shift := [], width := 4, conv := .zstr, pk := some .str, lenField := "" },
  { name := "ImageReferenceKey", start := 22, shift := [], width := 0, conv := .alphaVar, pk := some .str, lenField := "LengthImageReferenceKey" },
  { name := "Description", start := 22, shift := ["LengthImageReferenceKey"], width := 15, conv := .alpha, pk := some .str, lenField := "" },
  { name := "UserField", start := 37, shift := ["LengthImageReferenceKey"], width := 4, conv := .alpha, pk := some .str, lenField := "" },
  { name := "reserved", start := 41, shift := ["LengthImageReferenceKey"], width := 5, conv := .alpha, pk := some .str, lenField := "" }
]

/-- 35 ReturnDetailAddendumD -/
def returnDetailAddendumD : List SField := [
  { name := "recordType", start := 0, shift := [], width := 2, conv := .lit, pk := none, lenField := "" },
  { name := "RecordNumber", start := 2, shift := [], width := 2, conv := .numeric, pk := some .num, lenField := "" },
  { name := "EndorsingBankRoutingNumber", start := 4, shift := [], width := 9, conv := .zstr, pk := some .str, lenField := "" },
  { name := "BOFDEndorsementBusinessDate", start := 13, shift := [], width := 8, conv := .date, pk := some .date, lenField := "" },
  { name := "EndorsingBankItemSequenceNumber", start := 21, shift := [], width := 15, conv := .alpha, pk := some .str, lenField := "" },
  { name := "TruncationIndicator", start := 36, shift := [], width := 1, conv := .alpha, pk := some .str, lenField := "" },
  { name := "EndorsingBankConversionIndicator", start := 37, shift := [], width := 1, conv := .alpha, pk := some .str, lenField := "" },
  { name := "EndorsingBankCorrectionIndicator", start := 38, shift := [], width := 1, conv := .numeric, pk := some .num, lenField := "" },
  { name := "ReturnReason", start := 39, shift := [], width := 1, conv := .alpha, pk := some .str, lenField := "" },
  { name := "UserField", start := 40, shift := [], width := 19, conv := .alpha, pk := some .str, lenField := "" },
  { name := "EndorsingBankIdentifier", start := 59, shift := [], width := 1, conv := .numeric, pk := some .num, lenField := "" },
  { name := "reserved", start := 60, shift := [], width := 20, conv := .alpha, pk := none, lenField := "" }
]

/-- 50 ImageViewDetail -/
def imageViewDetail : List SField := [
  { name := "recordType", start := 0, shift := [], width := 2, conv := .lit, pk := none, lenField := "" },
  { name := "ImageIndicator", start := 2, shift := [], width := 1, conv := .numeric, pk := some .num, lenField := "" },
  { name := "ImageCreatorRoutingNumber", start := 3, shift := [], width := 9, conv := .zstr, pk := some .str, lenField := "" },
  { name := "ImageCreatorDate", start := 12, shift := [], width := 8, conv := .date, pk := some .date, lenField := "" },
  { name := "ImageViewFormatIndicator", start := 20, shift := [], width := 2, conv := .alpha, pk := some .str, lenField := "" },
  { name := "ImageViewCompressionAlgorithm", start := 22, shift := [], width := 2, conv := .alpha, pk := some .str, lenField := "" },
  { name := "ImageViewDataSize", start := 24, shift := [], width := 7, conv := .alpha, pk := some .str, lenField := "" },
  { name := "ViewSideIndicator", start := 31, shift := [], width := 1, conv := .numeric, pk := some .num, lenField := "" },
  { name := "ViewDescriptor", start := 32, shift := [], width := 2, conv := .alpha, pk := some .str, lenField := "" },
  { name := "DigitalSignatureIndicator", start := 34, shift := [], width := 1, conv := .numeric, pk := some .num, lenField := "" },
  { name := "DigitalSignatureMethod", start := 35, shift := [], width := 2, conv := .alpha, pk := some .str, lenField := "" },
  { name := "SecurityKeySize", start := 37, shift := [], width := 5, conv := .numericBlankNonPos, pk := some .num, lenField := "" },
  { name := "ProtectedDataStart", start := 42, shift := [], width := 7, conv := .numeric, pk := some .num, lenField := "" },
  { name := "ProtectedDataLength", start := 49, shift := [], width := 7, conv := .numeric, pk := some .num, lenField := "" },
  { name := "ImageRecreateIndicator", start := 56, shift := [], width := 1, conv := .numeric, pk := some .num, lenField := "" },
  { name := "UserField", start := 57, shift := [], width := 8, conv := .alpha, pk := some .str, lenField := "" },
  { name := "reserved", start := 65, shift := [], width := 1, conv := .alpha, pk := none, lenField := "" },
  { name := "OverrideIndicator", start := 66, shift := [], width := 1, conv := .alpha, pk := some .str, lenField := "" },
  { name := "reservedTwo", start := 67, shift := [], width := 13, conv := .alpha, pk := none, lenField := "" }
]

/-- 52 ImageViewData -/
def imageViewData : List SField := [
  { name := "recordType", start := 0, shift := [], width := 2, conv := .lit, pk := none, lenField := "" },
  { name := "EceInstitutionRoutingNumber", start := 2, shift := [], width := 9, conv := .zstr, pk := some .str, lenField := "" },
  { name := "BundleBusinessDate", start := 11, shift := [], width := 8, conv := .date, pk := some .date, lenField := "" },
  { name := "CycleNumber", start := 19, shift := [], width := 2, conv := .alpha, pk := some .str, lenField := "" },
  { name := "EceInstitutionItemSequenceNumber", start := 21, shift := [], width := 15, conv := .alpha, pk := some .str, lenField := "" },
  { name := "SecurityOriginatorName", start := 36, shift := [], width := 16, conv := .alpha, pk := some .str, lenField := "" },
  { name := "SecurityAuthenticatorName", start := 52, shift := [], width := 16, conv := .alpha, pk := some .str, lenField := "" },
  { name := "SecurityKeyName", start := 68, shift := [], width := 16, conv := .alpha, pk := some .str, lenField := "" },
  { name := "ClippingOrigin", start := 84, shift := [], width := 1, conv := .numeric, pk := some .num, lenField := "" },
  { name := "ClippingCoordinateH1", start := 85, shift := [], width := 4, conv := .alpha, pk := some .str, lenField := "" },
  { name := "ClippingCoordinateH2", start := 89, shift := [], width := 4, conv := .alpha, pk := some .str, lenField := "" },
  { name := "ClippingCoordinateV1", start := 93, shift := [], width := 4, conv := .alpha, pk := some .str, lenField := "" },
  { name := "ClippingCoordinateV2", start := 97, shift := [], width := 4, conv := .alpha, pk := some .str, lenField := "" },
  { name := "LengthImageReferenceKey", start := 101, shift := [], width := 4, conv := .zstr, pk := some .str, lenField := "" },
  { name := "ImageReferenceKey", start := 105, shift := [], width := 0, conv := .alphaVar, pk := some .str, lenField := "LengthImageReferenceKey" },
  { name := "LengthDigitalSignature", start := 105, shift := ["LengthImageReferenceKey"], width := 5, conv := .alpha, pk := some .str, lenField := "" },
  { name := "DigitalSignature", start := 110, shift := ["LengthImageReferenceKey"], width := 0, conv := .bytesVar, pk := some .bytes, lenField := "LengthDigitalSignature" },
  { name := "LengthImageData", start := 110, shift := ["LengthImageReferenceKey", "LengthDigitalSignature"], width := 7, conv := .alpha, pk := some .str, lenField := "" },
  { name := "ImageData", start := 117, shift := ["LengthImageReferenceKey", "LengthDigitalSignature"], width := 0, conv := .image, pk := some .bytes, lenField := "LengthImageData" }
]

/-- 54 ImageViewAnalysis -/
def imageViewAnalysis : List SField := [
  { name := "recordType", start := 0, shift := [], width := 2, conv := .lit, pk := none, lenField := "" },
  { name := "GlobalImageQuality", start := 2, shift := [], width := 1, conv := .numeric, pk := some .num, lenField := "" },
  { name := "GlobalImageUsability", start := 3, shift := [], width := 1, conv := .numeric, pk := some .num, lenField := "" },
  { name := "ImagingBankSpecificTest", start := 4, shift := [], width := 1, conv := .numeric, pk := some .num, lenField := "" },
  { name := "PartialImage", start := 5, shift := [], width := 1, conv := .numeric, pk := some .num, lenField := "" },
  { name := "ExcessiveImageSkew", start := 6, shift := [], width := 1, conv := .numeric, pk := some .num, lenField := "" },
  { name := "PiggybackImage", start := 7, shift := [], width := 1, conv := .numeric, pk := some .num, lenField := "" },
  { name := "TooLightOrTooDark", start := 8, shift := [], width := 1, conv := .numeric, pk := some .num, lenField := "" },
  { name := "StreaksAndOrBands", start := 9, shift := [], width := 1, conv := .numeric, pk := some .num, lenField := "" },
  { name := "BelowMinimumImageSize", start := 10, shift := [], width := 1, conv := .numeric, pk := some .num, lenField := "" },
  { name := "ExceedsMaximumImageSize", start := 11, shift := [], width := 1, conv := .numeric, pk := some .num, lenField := "" },
  { name := "reserved", start := 12, shift := [], width := 13, conv := .alpha, pk := none, lenField := "" },
  { name := "ImageEnabledPOD", start := 25, shift := [], width := 1, conv := .numeric, pk := some .num, lenField := "" },
  { name := "SourceDocumentBad", start := 26, shift := [], width := 1, conv := .numeric, pk := some .num, lenField := "" },
  { name := "DateUsability", start := 27, shift := [], width := 1, conv := .numeric, pk := some .num, lenField := "" },
  { name := "PayeeUsability", start := 28, shift := [], width := 1, conv := .numeric, pk := some .num, lenField := "" },
  { name := "ConvenienceAmountUsability", start := 29, shift := [], width := 1, conv := .numeric, pk := some .num, lenField := "" },
  { name := "AmountInWordsUsability", start := 30, shift := [], width := 1, conv := .numeric, pk := some .num, lenField := "" },
  { name := "SignatureUsability", start := 31, shift := [], width := 1, conv := .numeric, pk := some .num, lenField := "" },
  { name := "PayorNameAddressUsability", start := 32, shift := [], width := 1, conv := .numeric, pk := some .num, lenField := "" },
  { name := "MICRLineUsability", start := 33, shift := [], width := 1, conv := .numeric, pk := some .num, lenField := "" },
  { name := "MemoLineUsability", start := 34, shift := [], width := 1, conv := .numeric, pk := some .num, lenField := "" },
  { name := "PayorBankNameAddressUsability", start := 35, shift := [], width := 1, conv := .numeric, pk := some .num, lenField := "" },
  { name := "PayeeEndorsementUsability", start := 36, shift := [], width := 1, conv := .numeric, pk := some .num, lenField := "" },
  { name := "BOFDEndorsementUsability", start := 37, shift := [], width := 1, conv := .numeric, pk := some .num, lenField := "" },
  { name := "TransitEndorsementUsability", start := 38, shift := [], width := 1, conv := .numeric, pk := some .num, lenField := "" },
  { name := "reservedTwo", start := 39, shift := [], width := 6, conv := .alpha, pk := none, lenField := "" },
  { name := "UserField", start := 45, shift := [], width := 20, conv := .alpha, pk := some .str, lenField := "" },
  { name := "reservedThree", start := 65, shift := [], width := 15, conv := .alpha, pk := none, lenField := "" }
]

/-- 61 Credit -/
def credit : List SField := [
  { name := "recordType", start := 0, shift := [], width := 2, conv := .lit, pk := none, lenField := "" },
  { name := "AuxiliaryOnUs", start := 2, shift := [], width := 15, conv := .alpha, pk := some .str, lenField := "" },
  { name := "ExternalProcessingCode", start := 17, shift := [], width := 1, conv := .alpha, pk := some .str, lenField := "" },
  { name := "PayorBankRoutingNumber", start := 18, shift := [], width := 9, conv := .alpha, pk := some .str, lenField := "" },
  { name := "CreditAccountNumberOnUs", start := 27, shift := [], width := 20, conv := .alpha, pk := some .str, lenField := "" },
  { name := "ItemAmount", start := 47, shift := [], width := 10, conv := .numeric, pk := some .num, lenField := "" },
  { name := "ECEInstitutionItemSequenceNumber", start := 57, shift := [], width := 15, conv := .alpha, pk := some .raw, lenField := "" },
  { name := "DocumentationTypeIndicator", start := 72, shift := [], width := 1, conv := .alpha, pk := some .str, lenField := "" },
  { name := "AccountTypeCode", start := 73, shift := [], width := 1, conv := .alpha, pk := some .str, lenField := "" },
  { name := "SourceWorkCode", start := 74, shift := [], width := 1, conv := .alpha, pk := some .str, lenField := "" },
  { name := "WorkType", start := 75, shift := [], width := 1, conv := .alpha, pk := some .str, lenField := "" },
  { name := "DebitCreditIndicator", start := 76, shift := [], width := 1, conv := .alpha, pk := some .str, lenField := "" },
  { name := "reserved", start := 77, shift := [], width := 3, conv := .alpha, pk := none, lenField := "" }
]

/-- 62 CreditItem -/
def creditItem : List SField := [
  { name := "recordType", start := 0, shift := [], width := 2, conv := .lit, pk := none, lenField := "" },
  { name := "AuxiliaryOnUs", start := 2, shift := [], width := 15, conv := .nbsm, pk := some .str, lenField := "" },
  { name := "ExternalProcessingCode", start := 17, shift := [], width := 1, conv := .alpha, pk := some .str, lenField := "" },
  { name := "PostingBankRoutingNumber", start := 18, shift := [], width := 9, conv := .zstr, pk := some .str, lenField := "" },
  { name := "OnUs", start := 27, shift := [], width := 20, conv := .nbsm, pk := some .str, lenField := "" },
  { name := "ItemAmount", start := 47, shift := [], width := 14, conv := .numeric, pk := some .num, lenField := "" },
  { name := "CreditItemSequenceNumber", start := 61, shift := [], width := 15, conv := .alpha, pk := some .str, lenField := "" },
  { name := "DocumentationTypeIndicator", start := 76, shift := [], width := 1, conv := .alpha, pk := some .str, lenField := "" },
  { name := "AccountTypeCode", start := 77, shift := [], width := 1, conv := .alpha, pk := some .str, lenField := "" },
  { name := "SourceWorkCode", start := 78, shift := [], width := 2, conv := .alpha, pk := some .str, lenField := "" },
  { name := "UserField", start := 80, shift := [], width := 16, conv := .alpha, pk := some .str, lenField := "" },
  { name := "reserved", start := 96, shift := [], width := 4, conv := .alpha, pk := none, lenField := "" }
]

/-- 68 UserGeneral -/
def userGeneral : List SField := [
  { name := "recordType", start := 0, shift := [], width := 2, conv := .lit, pk := none, lenField := "" },
  { name := "OwnerIdentifierIndicator", start := 2, shift := [], width := 1, conv := .numeric, pk := some .num, lenField := "" },
  { name := "OwnerIdentifier", start := 3, shift := [], width := 9, conv := .alpha, pk := some .str, lenField := "" },
  { name := "OwnerIdentifierModifier", start := 12, shift := [], width := 20, conv := .alpha, pk := some .str, lenField := "" },
  { name := "UserRecordFormatType", start := 32, shift := [], width := 3, conv := .alpha, pk := some .str, lenField := "" },
  { name := "FormatTypeVersionLevel", start := 35, shift := [], width := 3, conv := .alpha, pk := some .str, lenField := "" },
  { name := "LengthUserData", start := 38, shift := [], width := 7, conv := .alpha, pk := some .str, lenField := "" },
  { name := "UserData", start := 45, shift := [], width := 0, conv := .alphaVar, pk := none, lenField := "LengthUserData" }
]

/-- 68 UserPayeeEndorsement -/
def userPayeeEndorsement : List SField := [
  { name := "recordType", start := 0, shift := [], width := 2, conv := .lit, pk := none, lenField := "" },
  { name := "OwnerIdentifierIndicator", start := 2, shift := [], width := 1, conv := .numeric, pk := some .num, lenField := "" },
  { name := "OwnerIdentifier", start := 3, shift := [], width := 9, conv := .alpha, pk := some .str, lenField := "" },
  { name := "OwnerIdentifierModifier", start := 12, shift := [], width := 20, conv := .alpha, pk := some .str, lenField := "" },
  { name := "UserRecordFormatType", start := 32, shift := [], width := 3, conv := .alpha, pk := none, lenField := "" },
  { name := "FormatTypeVersionLevel", start := 35, shift := [], width := 3, conv := .alpha, pk := some .str, lenField := "" },
  { name := "LengthUserData", start := 38, shift := [], width := 7, conv := .alpha, pk := some .str, lenField := "" },
  { name := "PayeeName", start := 45, shift := [], width := 50, conv := .alpha, pk := some .str, lenField := "" },
  { name := "EndorsementDate", start := 95, shift := [], width := 8, conv := .date, pk := some .date, lenField := "" },
  { name := "BankRoutingNumber", start := 103, shift := [], width := 9, conv := .alpha, pk := some .str, lenField := "" },
  { name := "BankAccountNumber", start := 112, shift := [], width := 20, conv := .alpha, pk := some .str, lenField := "" },
  { name := "CustomerIdentifier", start := 132, shift := [], width := 20, conv := .alpha, pk := some .str, lenField := "" },
  { name := "CustomerContactInformation", start := 152, shift := [], width := 50, conv := .alpha, pk := some .str, lenField := "" },
  { name := "StoreMerchantProcessingSiteNumber", start := 202, shift := [], width := 8, conv := .alpha, pk := some .str, lenField := "" },
  { name := "InternalControlSequenceNumber", start := 210, shift := [], width := 25, conv := .alpha, pk := some .str, lenField := "" },
  { name := "Time", start := 235, shift := [], width := 4, conv := .time, pk := some .time, lenField := "" },
  { name := "OperatorName", start := 239, shift := [], width := 30, conv := .alpha, pk := some .str, lenField := "" },
  { name := "OperatorNumber", start := 269, shift := [], width := 5, conv := .alpha, pk := some .str, lenField := "" },
  { name := "ManagerName", start := 274, shift := [], width := 30, conv := .alpha, pk := some .str, lenField := "" },
  { name := "ManagerNumber", start := 304, shift := [], width := 5, conv := .alpha, pk := some .str, lenField := "" },
  { name := "EquipmentNumber", start := 309, shift := [], width := 15, conv := .alpha, pk := some .str, lenField := "" },
  { name := "EndorsementIndicator", start := 324, shift := [], width := 1, conv := .numeric, pk := some .num, lenField := "" },
  { name := "UserField", start := 325, shift := [], width := 10, conv := .alpha, pk := some .str, lenField := "" }
]

/-- 70 BundleControl -/
def bundleControl : List SField := [
  { name := "recordType", start := 0, shift := [], width := 2, conv := .lit, pk := none, lenField := "" },
  { name := "BundleItemsCount", start := 2, shift := [], width := 4, conv := .numeric, pk := some .num, lenField := "" },
  { name := "BundleTotalAmount", start := 6, shift := [], width := 12, conv := .numeric, pk := some .num, lenField := "" },
  { name := "MICRValidTotalAmount", start := 18, shift := [], width := 12, conv := .numeric, pk := some .num, lenField := "" },
  { name := "BundleImagesCount", start := 30, shift := [], width := 5, conv := .numeric, pk := some .num, lenField := "" },
  { name := "UserField", start := 35, shift := [], width := 20, conv := .alpha, pk := some .str, lenField := "" },
  { name := "CreditTotalIndicator", start := 55, shift := [], width := 1, conv := .numeric, pk := some .num, lenField := "" },
  { name := "reserved", start := 56, shift := [], width := 24, conv := .alpha, pk := none, lenField := "" }
]

/-- 85 RoutingNumberSummary -/
def routingNumberSummary : List SField := [
  { name := "recordType", start := 0, shift := [], width := 2, conv := .lit, pk := none, lenField := "" },
  { name := "CashLetterRoutingNumber", start := 2, shift := [], width := 9, conv := .zstr, pk := some .str, lenField := "" },
  { name := "RoutingNumberTotalAmount", start := 11, shift := [], width := 14, conv := .numeric, pk := some .num, lenField := "" },
  { name := "RoutingNumberItemCount", start := 25, shift := [], width := 6, conv := .numeric, pk := some .num, lenField := "" },
  { name := "UserField", start := 31, shift := [], width := 24, conv := .alpha, pk := some .str, lenField := "" },
  { name := "reserved", start := 55, shift := [], width := 25, conv := .alpha, pk := none, lenField := "" }
]

/-- 90 CashLetterControl -/
def cashLetterControl : List SField := [
  { name := "recordType", start := 0, shift := [], width := 2, conv := .lit, pk := none, lenField := "" },
  { name := "CashLetterBundleCount", start := 2, shift := [], width := 6, conv := .numeric, pk := some .num, lenField := "" },
  { name := "CashLetterItemsCount", start := 8, shift := [], width := 8, conv := .numeric, pk := some .num, lenField := "" },
  { name := "CashLetterTotalAmount", start := 16, shift := [], width := 14, conv := .numeric, pk := some .num, lenField := "" },
  { name := "CashLetterImagesCount", start := 30, shift := [], width := 9, conv := .numeric, pk := some .num, lenField := "" },
  { name := "ECEInstitutionName", start := 39, shift := [], width := 18, conv := .alpha, pk := some .str, lenField := "" },
  { name := "SettlementDate", start := 57, shift := [], width := 8, conv := .date, pk := some .date, lenField := "" },
  { name := "CreditTotalIndicator", start := 65, shift := [], width := 1, conv := .numeric, pk := some .num, lenField := "" },
  { name := "reserved", start := 66, shift := [], width := 14, conv := .alpha, pk := none, lenField := "" }
]

/-- 99 FileControl -/
def fileControl : List SField := [
  { name := "recordType", start := 0, shift := [], width := 2, conv := .lit, pk := none, lenField := "" },
  { name := "CashLetterCount", start := 2, shift := [], width := 6, conv := .numeric, pk := some .num, lenField := "" },
  { name := "TotalRecordCount", start := 8, shift := [], width := 8, conv := .numeric, pk := some .num, lenField := "" },
  { name := "TotalItemCount", start := 16, shift := [], width := 8, conv := .numeric, pk := some .num, lenField := "" },
  { name := "FileTotalAmount", start := 24, shift := [], width := 16, conv := .numeric, pk := some .num, lenField := "" },
  { name := "ImmediateOriginContactName", start := 40, shift := [], width := 14, conv := .alpha, pk := some .str, lenField := "" },
  { name := "ImmediateOriginContactPhoneNumber", start := 54, shift := [], width := 10, conv := .alpha, pk := some .str, lenField := "" },
  { name := "CreditTotalIndicator", start := 64, shift := [], width := 1, conv := .numeric, pk := some .num, lenField := "" },
  { name := "reserved", start := 65, shift := [], width := 15, conv := .alpha, pk := none, lenField := "" }
]

def all : List (String × List SField) := [
  ("FileHeader", fileHeader),
  ("CashLetterHeader", cashLetterHeader),
  ("BundleHeader", bundleHeader),
  ("CheckDetail", checkDetail),
  ("CheckDetailAddendumA", checkDetailAddendumA),
  ("CheckDetailAddendumB", checkDetailAddendumB),
  ("CheckDetailAddendumC", checkDetailAddendumC),
  ("ReturnDetail", returnDetail),
  ("ReturnDetailAddendumA", returnDetailAddendumA),
  ("ReturnDetailAddendumB", returnDetailAddendumB),
  ("ReturnDetailAddendumC", returnDetailAddendumC),
  ("ReturnDetailAddendumD", returnDetailAddendumD),
  ("ImageViewDetail", imageViewDetail),
  ("ImageViewData", imageViewData),
  ("ImageViewAnalysis", imageViewAnalysis),
  ("Credit", credit),
  ("CreditItem", creditItem),
  ("UserGeneral", userGeneral),
  ("UserPayeeEndorsement", userPayeeEndorsement),
  ("BundleControl", bundleControl),
  ("RoutingNumberSummary", routingNumberSummary),
  ("CashLetterControl", cashLetterControl),
  ("FileControl", fileControl)
]

end Icl.Spec
