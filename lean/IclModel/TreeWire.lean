/-
Line-protocol encoding of file trees (driver only; not part of the model).
Tokens separated by `~`; each token `TAG|vals` (vals `^` = nil pointer).
-/
import IclModel.Wire
import IclModel.Tree
namespace Icl.Wire
open Icl

structure TState where
  fh : Vals := {}
  fc : Vals := {}
  cls : List (CashLetter Vals) := []
  cl : Option (CashLetter Vals) := none
  b : Option (Bundle Vals) := none
  isCheck : Bool := true
  it : Option (Item Vals) := none

def optVals (s : String) : Option Vals := if s == "^" then none else some (parseVals s).1

def TState.closeItem (t : TState) : TState :=
  match t.it, t.b with
  | some it, some b =>
    { t with it := none, b := some (if t.isCheck then { b with checks := b.checks ++ [it] } else { b with returns := b.returns ++ [it] }) }
  | _, _ => { t with it := none }

def TState.closeBundle (t : TState) : TState :=
  let t := t.closeItem
  match t.b, t.cl with
  | some b, some cl => { t with b := none, cl := some { cl with bundles := cl.bundles ++ [b] } }
  | _, _ => { t with b := none }

def TState.closeCL (t : TState) : TState :=
  let t := t.closeBundle
  match t.cl with
  | some cl => { t with cl := none, cls := t.cls ++ [cl] }
  | none => t

def treeStep (t : TState) (tok : String) : TState :=
  match tok.splitOn "|" with
  | [tag, vs] =>
    let v := (parseVals vs).1
    let updItem (f : Item Vals → Item Vals) : TState := { t with it := t.it.map f }
    match tag with
    | "FH" => { t with fh := v }
    | "FC" => let t := t.closeCL; { t with fc := v }
    | "CL+" => let t := t.closeCL; { t with cl := some ({ header := optVals vs, control := none } : CashLetter Vals) }
    | "CLC" => let t := t.closeBundle; ({ t with cl := t.cl.map (fun (c : CashLetter Vals) => { c with control := optVals vs }) }).closeCL
    | "CI" => { t with cl := t.cl.map (fun c => { c with creditItems := c.creditItems ++ [v] }) }
    | "CR" => { t with cl := t.cl.map (fun c => { c with credits := c.credits ++ [v] }) }
    | "RNS" => let t := t.closeBundle; { t with cl := t.cl.map (fun c => { c with rns := c.rns ++ [optVals vs] }) }
    | "B+" => let t := t.closeBundle; { t with b := some ({ header := optVals vs, control := none } : Bundle Vals) }
    | "BC" => let t := t.closeItem; ({ t with b := t.b.map (fun (b : Bundle Vals) => { b with control := optVals vs }) }).closeBundle
    | "CK" => let t := t.closeItem; { t with it := some { detail := v }, isCheck := true }
    | "RT" => let t := t.closeItem; { t with it := some { detail := v }, isCheck := false }
    | "AA" => updItem (fun i => { i with addA := i.addA ++ [v] })
    | "AB" => updItem (fun i => { i with addB := i.addB ++ [v] })
    | "AC" => updItem (fun i => { i with addC := i.addC ++ [v] })
    | "AD" => updItem (fun i => { i with addD := i.addD ++ [v] })
    | "VD" => updItem (fun i => { i with ivDetail := i.ivDetail ++ [v] })
    | "VT" => updItem (fun i => { i with ivData := i.ivData ++ [v] })
    | "VA" => updItem (fun i => { i with ivAnalysis := i.ivAnalysis ++ [v] })
    | _ => t
  | _ => t

def parseTree (s : String) : File Vals :=
  let t := ((if s == "-" then [] else s.splitOn "~").foldl treeStep {}).closeCL
  { header := t.fh, cashLetters := t.cls, control := t.fc }

def dumpRec (m : Model) (k : Kind) (tag : String) (v : Option Vals) : String :=
  match v with
  | none => tag ++ "|^"
  | some v => tag ++ "|" ++ dumpVals (fieldKinds (m.layout k)) v

def dumpItem (m : Model) (isCheck : Bool) (it : Item Vals) : List String :=
  [dumpRec m (if isCheck then .checkDetail else .returnDetail) (if isCheck then "CK" else "RT") (some it.detail)] ++
  it.addA.map (fun r => dumpRec m (if isCheck then .cdAddA else .rdAddA) "AA" (some r)) ++
  it.addB.map (fun r => dumpRec m (if isCheck then .cdAddB else .rdAddB) "AB" (some r)) ++
  it.addC.map (fun r => dumpRec m (if isCheck then .cdAddC else .rdAddC) "AC" (some r)) ++
  it.addD.map (fun r => dumpRec m .rdAddD "AD" (some r)) ++
  it.ivDetail.map (fun r => dumpRec m .ivDetail "VD" (some r)) ++
  it.ivData.map (fun r => dumpRec m .ivData "VT" (some r)) ++
  it.ivAnalysis.map (fun r => dumpRec m .ivAnalysis "VA" (some r))

def dumpTree (m : Model) (f : File Vals) : String :=
  "~".intercalate (
    [dumpRec m .fileHeader "FH" (some f.header)] ++
    f.cashLetters.flatMap (fun cl =>
      [dumpRec m .cashLetterHeader "CL+" cl.header] ++
      cl.creditItems.map (fun r => dumpRec m .creditItem "CI" (some r)) ++
      cl.credits.map (fun r => dumpRec m .credit "CR" (some r)) ++
      cl.bundles.flatMap (fun b =>
        [dumpRec m .bundleHeader "B+" b.header] ++ b.checks.flatMap (dumpItem m true) ++
        b.returns.flatMap (dumpItem m false) ++ [dumpRec m .bundleControl "BC" b.control]) ++
      cl.rns.map (fun r => dumpRec m .rns "RNS" r) ++
      [dumpRec m .cashLetterControl "CLC" cl.control]) ++
    [dumpRec m .fileControl "FC" (some f.control)])

def dumpErr (e : Option RErr) : String :=
  match e with
  | none => "ok"
  | some e =>
    let c := match e.cls with
      | .file => "file" | .field => "field" | .bundle => "bundle" | .cashLetter => "cashLetter" | .plain => "plain"
    if e.wrapped then s!"err|1|{e.line}|{e.record}|{c}|{e.field}" else s!"err|0|0||{c}|{e.field}"

end Icl.Wire
