/-
L4 — the file tree, the writer walk (`Writer.Write`) and the reader state machine (`Reader.Read`),
transcribed from writer.go / reader.go / cashLetter.go / bundle.go / file.go.  Hand-written; tied to
the code by the `write` / `read` correspondence streams.
-/
import IclModel.Rules
import IclModel.Encoding
import IclModel.Scanner
namespace Icl

/-- record kinds the reader dispatches on -/
inductive Kind
  | fileHeader | cashLetterHeader | bundleHeader | checkDetail | cdAddA | cdAddB | cdAddC
  | returnDetail | rdAddA | rdAddB | rdAddC | rdAddD | ivDetail | ivData | ivAnalysis
  | credit | creditItem | bundleControl | rns | cashLetterControl | fileControl
deriving DecidableEq, Repr, Inhabited

def Kind.goName : Kind → String
  | .fileHeader => "FileHeader" | .cashLetterHeader => "CashLetterHeader" | .bundleHeader => "BundleHeader"
  | .checkDetail => "CheckDetail" | .cdAddA => "CheckDetailAddendumA" | .cdAddB => "CheckDetailAddendumB"
  | .cdAddC => "CheckDetailAddendumC" | .returnDetail => "ReturnDetail" | .rdAddA => "ReturnDetailAddendumA"
  | .rdAddB => "ReturnDetailAddendumB" | .rdAddC => "ReturnDetailAddendumC" | .rdAddD => "ReturnDetailAddendumD"
  | .ivDetail => "ImageViewDetail" | .ivData => "ImageViewData" | .ivAnalysis => "ImageViewAnalysis"
  | .credit => "Credit" | .creditItem => "CreditItem" | .bundleControl => "BundleControl"
  | .rns => "RoutingNumberSummary" | .cashLetterControl => "CashLetterControl" | .fileControl => "FileControl"

def Kind.all : List Kind :=
  [.fileHeader, .cashLetterHeader, .bundleHeader, .checkDetail, .cdAddA, .cdAddB, .cdAddC, .returnDetail,
   .rdAddA, .rdAddB, .rdAddC, .rdAddD, .ivDetail, .ivData, .ivAnalysis, .credit, .creditItem,
   .bundleControl, .rns, .cashLetterControl, .fileControl]

/-- the two-character type code in ASCII -/
def Kind.tag : Kind → Bytes
  | .fileHeader => [0x30, 0x31] | .cashLetterHeader => [0x31, 0x30] | .bundleHeader => [0x32, 0x30]
  | .checkDetail => [0x32, 0x35] | .cdAddA => [0x32, 0x36] | .cdAddB => [0x32, 0x37] | .cdAddC => [0x32, 0x38]
  | .returnDetail => [0x33, 0x31] | .rdAddA => [0x33, 0x32] | .rdAddB => [0x33, 0x33] | .rdAddC => [0x33, 0x34]
  | .rdAddD => [0x33, 0x35] | .ivDetail => [0x35, 0x30] | .ivData => [0x35, 0x32] | .ivAnalysis => [0x35, 0x34]
  | .credit => [0x36, 0x31] | .creditItem => [0x36, 0x32] | .bundleControl => [0x37, 0x30] | .rns => [0x38, 0x35]
  | .cashLetterControl => [0x39, 0x30] | .fileControl => [0x39, 0x39]

/-- EBCDIC form of an ASCII digit pair (`"\xF0\xF1"` for `"01"`) -/
def ebcTag (t : Bytes) : Bytes := t.map (fun b => b + 0xC0)

/-- `switch r.line[:2]`: the ASCII or the EBCDIC spelling of a known type code -/
def kindOfLine (line : Bytes) : Option Kind :=
  Kind.all.find? (fun k => line.take 2 == k.tag || line.take 2 == ebcTag k.tag)

/-- a check or return item with its addenda and image views (`α` = record payload) -/
structure Item (α : Type) where
  detail : α
  addA : List α := []
  addB : List α := []
  addC : List α := []
  addD : List α := []
  ivDetail : List α := []
  ivData : List α := []
  ivAnalysis : List α := []
deriving Inhabited

structure Bundle (α : Type) where
  header : Option α
  checks : List (Item α) := []
  returns : List (Item α) := []
  control : Option α
deriving Inhabited

structure CashLetter (α : Type) where
  header : Option α
  bundles : List (Bundle α) := []
  credits : List α := []
  creditItems : List α := []
  rns : List (Option α) := []
  control : Option α
deriving Inhabited

structure File (α : Type) where
  header : α
  cashLetters : List (CashLetter α) := []
  control : α
deriving Inhabited

/-! ### the writer walk -/

/-- the `i`-th record of a list, if there is one -/
def optRec {α} (k : Kind) (l : List α) (i : Nat) : List (Kind × Option α) :=
  match l[i]? with
  | some r => [(k, some r)]
  | none => []

/-- records in the order `Writer.Write` emits them; `none` is a nil pointer (rendered as "") -/
def Item.flatten {α} (isCheck : Bool) (it : Item α) : List (Kind × Option α) :=
  [((if isCheck then Kind.checkDetail else Kind.returnDetail), some it.detail)] ++
  it.addA.map (fun r => ((if isCheck then Kind.cdAddA else Kind.rdAddA), some r)) ++
  it.addB.map (fun r => ((if isCheck then Kind.cdAddB else Kind.rdAddB), some r)) ++
  it.addC.map (fun r => ((if isCheck then Kind.cdAddC else Kind.rdAddC), some r)) ++
  (if isCheck then [] else it.addD.map (fun r => (Kind.rdAddD, some r))) ++
  ((List.range it.ivDetail.length).flatMap (fun i =>
    optRec .ivDetail it.ivDetail i ++ optRec .ivData it.ivData i ++ optRec .ivAnalysis it.ivAnalysis i))

/-- `writeImageView`'s precondition (else a BundleError is returned) -/
def Item.imageCountsOK {α} (it : Item α) : Bool :=
  (it.ivData.isEmpty || it.ivData.length == it.ivDetail.length) &&
  (it.ivAnalysis.isEmpty || it.ivAnalysis.length == it.ivDetail.length)

def Bundle.flatten {α} (b : Bundle α) : List (Kind × Option α) :=
  [(Kind.bundleHeader, b.header)] ++ b.checks.flatMap (Item.flatten true) ++
  b.returns.flatMap (Item.flatten false) ++ [(Kind.bundleControl, b.control)]

def CashLetter.flatten {α} (cl : CashLetter α) : List (Kind × Option α) :=
  [(Kind.cashLetterHeader, cl.header)] ++ cl.creditItems.map (fun r => (Kind.creditItem, some r)) ++
  cl.credits.map (fun r => (Kind.credit, some r)) ++ cl.bundles.flatMap Bundle.flatten ++
  cl.rns.map (fun r => (Kind.rns, r)) ++ [(Kind.cashLetterControl, cl.control)]

def File.flatten {α} (f : File α) : List (Kind × Option α) :=
  [(Kind.fileHeader, some f.header)] ++ f.cashLetters.flatMap CashLetter.flatten ++ [(Kind.fileControl, some f.control)]

def File.imageCountsOK {α} (f : File α) : Bool :=
  f.cashLetters.all (fun cl => cl.bundles.all (fun b => b.checks.all Item.imageCountsOK && b.returns.all Item.imageCountsOK))

/-! ### writer (bytes) -/

structure Enc where
  /-- `WriteVariableLineLengthOption` / `ReadVariableLineLengthOption` -/
  lp : Bool
  /-- `WriteEbcdicEncodingOption` / `ReadEbcdicEncodingOption` -/
  ebcdic : Bool
deriving DecidableEq, Repr, Inhabited

/-- everything the record-level model needs -/
structure Model where
  layouts : List RecLayout
  /-- `rec.Validate()`: rejecting field (or none) and the possibly normalised record -/
  validator : String → Vals → Option String × Vals
  /-- a validator predicate applied to a bare string (`isAlphanumericSpecial`, `isNumeric`, …) -/
  accepts : String → Bytes → Bool := fun _ _ => true
  cm : Charmap
  b64 : Bytes → Option Bytes
  now : Date
  frb : Bool

def Model.layout (m : Model) (k : Kind) : RecLayout :=
  (m.layouts.find? (fun L => L.name == k.goName)).getD default

def Model.validateK (m : Model) (k : Kind) (v : Vals) : Option String × Vals := m.validator k.goName v

/-- validator built from regenerated (or any) rule trees and code tables -/
def treeValidator (layouts : List RecLayout) (rules : List (String × Stmt)) (codes : Codes)
    (b64 : Bytes → Option Bytes) (frb : Bool) : String → Vals → Option String × Vals :=
  fun n v =>
    match rules.find? (fun p => p.1 == n) with
    | some p =>
      validate { codes := codes, write := ((layouts.find? (fun L => L.name == n)).getD default).write,
                 b64 := b64, frb := frb } p.2 v
    | none => (some "<no rules>", v)

/-- `record.String()` (a nil record pointer renders as "") -/
def lineOf (m : Model) (k : Kind) (r : Option Vals) : Bytes :=
  match r with
  | some v => render m.b64 (m.layout k).write true v
  | none => []

/-- the bytes `writeLine` emits between the framing: the record itself (ASCII), its transliteration
(EBCDIC), or for record 52 under EBCDIC the transliteration of `toString(false)` followed by the image
bytes that `String()` renders.  `none` = the encoder returned an error. -/
def bodyOf (m : Model) (ebcdic : Bool) (k : Kind) (r : Option Vals) : Option Bytes :=
  if ebcdic then
    match k, r with
    | .ivData, some v =>
      (m.cm.encode (render m.b64 (m.layout k).write false v)).map
        (· ++ ((m.layout k).write.filter (·.imageOnly)).flatMap (fun f => renderField m.b64 f v))
    | _, _ => m.cm.encode (lineOf m k r)
  else some (lineOf m k r)

/-- `writeLine`: prefix from `len(record.String())`, then the per-encoding body.
`none` = the writer returns an error. -/
def writeLine (m : Model) (e : Enc) (k : Kind) (r : Option Vals) : Option Bytes :=
  let n := (lineOf m k r).length
  let pre : Option Bytes :=
    if e.lp then (if validSizeInt n then some (be32 n) else none) else some []
  match pre, bodyOf m e.ebcdic k r with
  | some p, some b => some (p ++ b ++ (if e.lp then [] else [0x0A]))
  | _, _ => none

/-- `File.Validate` = `CashLetterIDUnique`: at least one cash letter, no two consecutive equal IDs
(cash letters without header are skipped) -/
def cashLetterIDUnique (ids : List (Option Bytes)) : Bool :=
  let rec go (prev : Bytes) : List (Option Bytes) → Bool
    | [] => true
    | none :: r => go prev r
    | some id :: r => if prev == id then false else go id r
  !ids.isEmpty && go [] ids

def fileValidate (f : File Vals) : Bool :=
  cashLetterIDUnique (f.cashLetters.map (fun cl => cl.header.map (fun h => h.s "CashLetterID")))

/-- `Writer.Write`; `none` = error -/
def writeFile (m : Model) (e : Enc) (f : File Vals) : Option Bytes :=
  if !fileValidate f then none
  else if !f.imageCountsOK then none
  else (f.flatten.foldl (fun acc kr =>
      match acc, writeLine m e kr.1 kr.2 with
      | some a, some l => some (a ++ l)
      | _, _ => none) (some []))

/-! ### the reader -/

inductive ErrClass | file | field | bundle | cashLetter | plain
deriving DecidableEq, Repr, Inhabited

/-- canonical form of a reader error: wrapped in ParseError or not, line, record name, class, field -/
structure RErr where
  wrapped : Bool
  line : Nat
  record : String
  cls : ErrClass
  field : String
deriving DecidableEq, Repr, Inhabited

/-- reader state: `r.File`, `r.currentCashLetter` (with its current bundle / current summary) -/
structure RState where
  header : Vals
  control : Vals
  cashLetters : List (CashLetter Vals) := []
  cur : CashLetter Vals := { header := none, control := none }
  curBundle : Option (Bundle Vals) := none
  curRNS : Option Vals := none
  lineNum : Nat := 0
  recordName : String := ""
  /-- `r.File.Header == NewFileHeader()`: no file header line has been parsed into it -/
  headerUntouched : Bool := true

def RState.err (s : RState) (c : ErrClass) (f : String) : RErr :=
  { wrapped := true, line := s.lineNum, record := s.recordName, cls := c, field := f }

/-- parse a decoded line into `v0` and validate it -/
def parseValidate (m : Model) (k : Kind) (dec : Bytes → Bytes) (line : Bytes) (v0 : Vals) : Except String Vals :=
  let L := m.layout k
  match L.parseRec dec m.now line v0 with
  | .panic => .error "<panic>"
  | .done v =>
    match m.validateK k v with
    | (none, v') => .ok v'
    | (some f, _) => .error f

def hasChecks (s : RState) : Bool := match s.curBundle with | some b => !b.checks.isEmpty | none => false
def hasReturns (s : RState) : Bool := match s.curBundle with | some b => !b.returns.isEmpty | none => false

/-- replace the last element of a list -/
def modifyLast {α} (f : α → α) : List α → List α
  | [] => []
  | [x] => [f x]
  | x :: r => x :: modifyLast f r

def RState.updLastCheck (s : RState) (f : Item Vals → Item Vals) : RState :=
  { s with curBundle := s.curBundle.map (fun b => { b with checks := modifyLast f b.checks }) }
def RState.updLastReturn (s : RState) (f : Item Vals → Item Vals) : RState :=
  { s with curBundle := s.curBundle.map (fun b => { b with returns := modifyLast f b.returns }) }

/-- `Bundle.Validate()` -/
def bundleValidate (b : Bundle Vals) : Option String :=
  if b.checks.isEmpty && b.returns.isEmpty then some "entries"
  else if !b.checks.isEmpty && !b.returns.isEmpty then some "entries"   -- forward or return items, not both
  else if !b.checks.isEmpty then
    b.checks.findSome? (fun cd =>
      if cd.detail.i "AddendumCount" ≠ ((cd.addA.length + cd.addB.length + cd.addC.length : Nat) : Int) then some "AddendumCount"
      else if cd.addA.length > 9 then some "CheckDetailAddendumA"
      else if cd.addB.length > 1 then some "CheckDetailAddendumB"
      else if cd.addC.length > 99 then some "CheckDetailAddendumC"
      else none)
  else
    b.returns.findSome? (fun rd =>
      if rd.detail.i "AddendumCount" ≠ ((rd.addA.length + rd.addB.length + rd.addC.length + rd.addD.length : Nat) : Int) then some "AddendumCount"
      else if rd.addA.length > 9 then some "ReturnDetailAddendumA"
      else if rd.addB.length > 1 then some "ReturnDetailAddendumB"
      else if rd.addC.length > 1 then some "ReturnDetailAddendumC"
      else if rd.addD.length > 99 then some "ReturnDetailAddendumD"
      else none)

/-- `CashLetter.Validate()`: `(class, field)` of the error -/
def cashLetterValidate (m : Model) (cl : CashLetter Vals) : Option (ErrClass × String) :=
  match cl.header with
  | none => some (.plain, "nil CashLetterHeader")
  | some h =>
    if h.s "RecordTypeIndicator" == [0x4E] && !cl.bundles.isEmpty then some (.cashLetter, "RecordTypeIndicator")
    else if !([[0x30, 0x30], [0x30, 0x31], [0x30, 0x32]].contains (h.s "CollectionTypeIndicator")) && !cl.rns.isEmpty then
      some (.cashLetter, "CollectionTypeIndicator")
    else match cl.control with
      | none => some (.cashLetter, "CashLetterControl")
      | some c =>
        match m.validateK .cashLetterControl c with
        | (none, _) => none
        | (some f, _) => some (.field, f)

def ibm1047 (frb : Bool) (line : Bytes) : Bytes :=
  if frb then line.map (fun b => if b == 0xAD then 0xBA else if b == 0xBD then 0xBB else if b == 0x5F then 0xB0 else b)
  else line

/-- one step of `Reader.Read`'s loop body after the length check: `parseLine` -/
def rstep (m : Model) (e : Enc) (s : RState) (line : Bytes) : Except (RState × RErr) RState :=
  let dec : Bytes → Bytes := if e.ebcdic then m.cm.decode else id
  let pv (s : RState) (k : Kind) (ln : Bytes) (v0 : Vals) : Except (RState × RErr) Vals :=
    match parseValidate m k id ln v0 with
    | .ok v => .ok v
    | .error f => .error (s, s.err .field f)
  match kindOfLine line with
  | none => .error (s, s.err .file "recordType")
  | some .fileHeader =>
    let s := { s with recordName := "FileHeader" }
    -- parsed in place into r.File.Header
    match (m.layout .fileHeader).parseRec id m.now (dec line) s.header with
    | .panic => .error (s, s.err .field "<panic>")
    | .done v =>
      -- parsed into a copy: a rejected record leaves `r.File.Header` as it was.
      -- Parse assigns fields only when its length guard passes; then the header differs from the template
      let touched := runeCount (dec line) == 80
      match m.validateK .fileHeader v with
      | (none, v') => .ok { s with header := v', headerUntouched := s.headerUntouched && !touched }
      | (some f, _) => .error (s, s.err .field f)
  | some .cashLetterHeader =>
    let s := { s with recordName := "CashLetterHeader" }
    if s.cur.header.isSome then .error (s, s.err .file "")
    else do
      let v ← pv s .cashLetterHeader (dec line) ((m.layout .cashLetterHeader).new m.now)
      -- NewCashLetter(clh): fresh control, everything else empty (the current bundle is dropped too)
      pure { s with cur := { header := some v, control := some ((m.layout .cashLetterControl).new m.now) },
                    curBundle := none, curRNS := none }
  | some .bundleHeader =>
    let s := { s with recordName := "BundleHeader" }
    if (match s.curBundle with | some b => b.header.isSome | none => false) then .error (s, s.err .file "")
    else do
      let v ← pv s .bundleHeader (dec line) ((m.layout .bundleHeader).new m.now)
      if s.cur.header.isNone then .error (s, s.err .file "")
      else pure { s with curBundle := some { header := some v, control := some ((m.layout .bundleControl).new m.now) } }
  | some .checkDetail =>
    let s := { s with recordName := "CheckDetail" }
    match s.curBundle with
    | none => .error (s, s.err .file "")
    | some b => do
      let v ← pv s .checkDetail (dec line) {}
      if b.header.isNone then .error (s, s.err .file "")
      else if !b.returns.isEmpty then .error (s, s.err .file "")
      else pure { s with curBundle := some { b with checks := b.checks ++ [{ detail := v }] } }
  | some .returnDetail =>
    let s := { s with recordName := "ReturnDetail" }
    match s.curBundle with
    | none => .error (s, s.err .file "")
    | some b => do
      let v ← pv s .returnDetail (dec line) {}
      if b.header.isNone then .error (s, s.err .file "")
      else if !b.checks.isEmpty then .error (s, s.err .file "")
      else pure { s with curBundle := some { b with returns := b.returns ++ [{ detail := v }] } }
  | some .cdAddA =>
    let s := { s with recordName := "CheckDetailAddendumA" }
    if !hasChecks s then .error (s, s.err .file "CheckDetailAddendumA")
    else do
      let v ← pv s .cdAddA (dec (ibm1047 (m.frb && e.ebcdic) line)) ((m.layout .cdAddA).new m.now)
      pure (s.updLastCheck (fun it => { it with addA := it.addA ++ [v] }))
  | some .cdAddB =>
    let s := { s with recordName := "CheckDetailAddendumB" }
    if !hasChecks s then .error (s, s.err .file "CheckDetailAddendumB")
    else do
      let v ← pv s .cdAddB (dec line) ((m.layout .cdAddB).new m.now)
      pure (s.updLastCheck (fun it => { it with addB := it.addB ++ [v] }))
  | some .cdAddC =>
    let s := { s with recordName := "CheckDetailAddendumC" }
    if !hasChecks s then .error (s, s.err .file "CheckDetailAddendumC")
    else do
      let v ← pv s .cdAddC (dec line) ((m.layout .cdAddC).new m.now)
      pure (s.updLastCheck (fun it => { it with addC := it.addC ++ [v] }))
  | some .rdAddA =>
    let s := { s with recordName := "ReturnDetailAddendumA" }
    if !hasReturns s then .error (s, s.err .file "ReturnDetailAddendumA")
    else do
      let v ← pv s .rdAddA (dec line) ((m.layout .rdAddA).new m.now)
      pure (s.updLastReturn (fun it => { it with addA := it.addA ++ [v] }))
  | some .rdAddB =>
    let s := { s with recordName := "ReturnDetailAddendumB" }
    if !hasReturns s then .error (s, s.err .file "ReturnDetailAddendumB")
    else do
      let v ← pv s .rdAddB (dec line) ((m.layout .rdAddB).new m.now)
      pure (s.updLastReturn (fun it => { it with addB := it.addB ++ [v] }))
  | some .rdAddC =>
    let s := { s with recordName := "ReturnDetailAddendumC" }
    if !hasReturns s then .error (s, s.err .file "ReturnDetailAddendumC")
    else do
      let v ← pv s .rdAddC (dec line) ((m.layout .rdAddC).new m.now)
      pure (s.updLastReturn (fun it => { it with addC := it.addC ++ [v] }))
  | some .rdAddD =>
    let s := { s with recordName := "ReturnDetailAddendumD" }
    if !hasReturns s then .error (s, s.err .file "ReturnDetailAddendumD")
    else do
      let v ← pv s .rdAddD (dec line) ((m.layout .rdAddD).new m.now)
      pure (s.updLastReturn (fun it => { it with addD := it.addD ++ [v] }))
  | some .ivDetail =>
    let s := { s with recordName := "ImageViewDetail" }
    if hasChecks s then do
      let v ← pv s .ivDetail (dec line) ((m.layout .ivDetail).new m.now)
      pure (s.updLastCheck (fun it => { it with ivDetail := it.ivDetail ++ [v] }))
    else if hasReturns s then do
      let v ← pv s .ivDetail (dec line) ((m.layout .ivDetail).new m.now)
      pure (s.updLastReturn (fun it => { it with ivDetail := it.ivDetail ++ [v] }))
    else .error (s, s.err .file "ImageViewDetail")
  | some .ivData =>
    let s := { s with recordName := "ImageViewData" }
    -- ParseAndDecode: the raw line is sliced, every field but the image goes through the decoder
    let pvData : Except (RState × RErr) Vals :=
      match parseValidate m .ivData dec line ((m.layout .ivData).new m.now) with
      | .ok v => .ok v
      | .error f => .error (s, s.err .field f)
    if hasChecks s then do
      let v ← pvData
      pure (s.updLastCheck (fun it => { it with ivData := it.ivData ++ [v] }))
    else if hasReturns s then do
      let v ← pvData
      pure (s.updLastReturn (fun it => { it with ivData := it.ivData ++ [v] }))
    else .error (s, s.err .file "ImageViewData")
  | some .ivAnalysis =>
    let s := { s with recordName := "ImageViewAnalysis" }
    if hasChecks s then do
      let v ← pv s .ivAnalysis (dec line) ((m.layout .ivAnalysis).new m.now)
      pure (s.updLastCheck (fun it => { it with ivAnalysis := it.ivAnalysis ++ [v] }))
    else if hasReturns s then do
      let v ← pv s .ivAnalysis (dec line) ((m.layout .ivAnalysis).new m.now)
      pure (s.updLastReturn (fun it => { it with ivAnalysis := it.ivAnalysis ++ [v] }))
    else .error (s, s.err .file "ImageViewAnalysis")
  | some .credit =>
    let s := { s with recordName := "Credit" }
    if s.cur.header.isNone then .error (s, s.err .file "")
    else do
      let v ← pv s .credit (dec line) {}
      pure { s with cur := { s.cur with credits := s.cur.credits ++ [v] } }
  | some .creditItem =>
    let s := { s with recordName := "CreditItem" }
    if s.cur.header.isNone then .error (s, s.err .file "")
    else do
      let v ← pv s .creditItem (dec line) {}
      pure { s with cur := { s.cur with creditItems := s.cur.creditItems ++ [v] } }
  | some .bundleControl =>
    let s := { s with recordName := "BundleControl" }
    match s.curBundle with
    | none => .error (s, s.err .file "")
    | some b =>
      match b.control with
      | none => .error (s, s.err .file "")
      | some c0 => do
        -- parsed in place into the bundle's control record
        let c ← pv s .bundleControl (dec line) c0
        let b := { b with control := some c }
        match bundleValidate b with
        | some f => .error (s, { s with recordName := "Bundles" }.err .bundle f)
        | none =>
          pure { s with cur := { s.cur with bundles := s.cur.bundles ++ [b] },
                        curBundle := some { header := none, control := none } }
  | some .rns =>
    let s := { s with recordName := "RoutingNumberSummary" }
    if s.cur.header.isNone then .error (s, s.err .file "")
    else do
      let v ← pv s .rns (dec line) ((m.layout .rns).new m.now)
      -- addCurrentRoutingNumberSummary(rns); AddRoutingNumberSummary(current); current = new(...)
      pure { s with cur := { s.cur with rns := s.cur.rns ++ [some v] }, curRNS := some {} }
  | some .cashLetterControl =>
    match s.cur.header with
    | none => .error (s, { wrapped := false, line := s.lineNum, record := s.recordName, cls := .plain, field := "missing CashLetterHeader" })
    | some _ =>
      let s := { s with recordName := "CashLetterControl" }
      if (match s.curBundle with | some b => b.header.isSome | none => false) then .error (s, s.err .file "")
      else
      match s.cur.control with
      | none => .error (s, s.err .field "<panic>")
      | some c0 => do
        let c ← pv s .cashLetterControl (dec line) c0
        let cl := { s.cur with control := some c }
        match cashLetterValidate m cl with
        | some (cls, f) => .error (s, { s with recordName := "CashLetters" }.err cls f)
        | none =>
          pure { s with cashLetters := s.cashLetters ++ [cl], cur := { header := none, control := none },
                        curBundle := none, curRNS := none }
  | some .fileControl =>
    let s := { s with recordName := "FileControl" }
    if !(s.control.s "recordType").isEmpty then .error (s, s.err .file "")
    else if s.cur.header.isSome then .error (s, s.err .file "")
    else
      match (m.layout .fileControl).parseRec id m.now (dec line) s.control with
      | .panic => .error (s, s.err .field "<panic>")
      | .done v =>
        match m.validateK .fileControl v with
        | (none, v') => .ok { s with control := v' }
        | (some f, _) => .error (s, s.err .field f)

def RState.file (s : RState) : File Vals :=
  { header := s.header, cashLetters := s.cashLetters, control := s.control }

/-- what a record 52 announces about itself: 101 fixed columns, then three sections (image reference key,
digital signature, image data), each preceded by its length in 4, 5 and 7 digits -/
def ivMinLen (dec : Bytes → Bytes) (l : Bytes) : Nat → List Nat → Nat
  | stop, [] => stop
  | stop, w :: ws =>
    if l.length < stop + w then stop + w
    else
      let n := parseNum (dec ((l.drop stop).take w))
      if n < 0 then l.length + 1 else ivMinLen dec l (stop + w + n.toNat) ws

/-- minimum record length: 80, except records 27 and 34 - 46 bytes plus the image reference key whose
length they announce in columns 19-22 (a negative announcement fits no layout) - and record 52 -/
def minLen (m : Model) (e : Enc) (l : Bytes) : Nat :=
  match kindOfLine l with
  | some .cdAddB | some .rdAddC =>
    if l.length < 22 then 46
    else
      let head := (if e.ebcdic then m.cm.decode else id) (l.take 22)
      let n := parseNum ((head.drop 18).take 4)
      if n < 0 then l.length + 1 else 46 + n.toNat
  | some .ivData =>
    if l.length < 80 then 80 else ivMinLen (if e.ebcdic then m.cm.decode else id) l 101 [4, 5, 7]
  | _ => 80

/-- the loop of `Reader.Read` over already split lines; returns the (partial) file and the error -/
def readLines (m : Model) (e : Enc) : List Bytes → RState → RState × Option RErr
  | [], s => (s, none)
  | l :: r, s =>
    let s := { s with lineNum := s.lineNum + 1 }
    if l.length < minLen m e l then (s, some (s.err .file "RecordLength"))
    else match rstep m e s l with
      | .ok s' => readLines m e r s'
      -- `Reader.error` stamps `r.lineNum`, which `parseLine` never changes
      | .error (s', er) => (s', some { er with line := s.lineNum })

def initState (m : Model) : RState :=
  { header := (m.layout .fileHeader).new m.now, control := {} }

/-- `NewReader(bytes, opts…).Read()` with the scanner replaced by its whole-input reference
(newline framing: `bufio.ScanLines`; length-prefix framing: `splitLP`); scanner buffer limits and
chunking are the subject of Frame/Scanner (C16). -/
def readFile (m : Model) (e : Enc) (input : Bytes) : File Vals × Option RErr :=
  let (lines, clean) := if e.lp then splitLP input else (splitNL input, true)
  let (s, er) := readLines m e lines (initState m)
  match er with
  | some x => (s.file, some x)
  | none =>
    if !clean then
      (s.file, some { wrapped := true, line := s.lineNum, record := s.recordName, cls := .file, field := "LineNumber" })
    else if s.headerUntouched then
      (s.file, some { wrapped := true, line := s.lineNum, record := "FileHeader", cls := .file, field := "" })
    else if (s.control.s "recordType").isEmpty then
      (s.file, some { wrapped := true, line := s.lineNum, record := "FileControl", cls := .file, field := "" })
    else if s.cur.header.isSome then
      (s.file, some { wrapped := true, line := s.lineNum, record := "CashLetterControl", cls := .file, field := "" })
    else (s.file, none)

/-- `Reader.Read` over a stream delivered by the chunk schedule `sched` with scanner buffer `max`:
the scanner model feeds the same record loop -/
def readFileScan (m : Model) (e : Enc) (splitLP : SplitFn) (max : Nat) (sched : List Nat) (input : Bytes) :
    File Vals × Option RErr :=
  let (lines, serr) := scan (if e.lp then splitLP else scanLinesSplit) max sched [] input
  let (s, er) := readLines m e lines (initState m)
  match er with
  | some x => (s.file, some x)
  | none =>
    if serr.isSome then
      (s.file, some { wrapped := true, line := s.lineNum, record := s.recordName, cls := .file, field := "LineNumber" })
    else if s.headerUntouched then
      (s.file, some { wrapped := true, line := s.lineNum, record := "FileHeader", cls := .file, field := "" })
    else if (s.control.s "recordType").isEmpty then
      (s.file, some { wrapped := true, line := s.lineNum, record := "FileControl", cls := .file, field := "" })
    else if s.cur.header.isSome then
      (s.file, some { wrapped := true, line := s.lineNum, record := "CashLetterControl", cls := .file, field := "" })
    else (s.file, none)

end Icl
