/-
An executable rendition of the premise `FileOK` of the C01 reassembly theorems (Props/C01.lean), for
the driver: evaluated on generated trees it shows the premise is met by the model the theorems are
instantiated with (the regenerated layouts and rule trees).  Equality of record values is decided on
the members the record's layout names (values are functions; full equality is not decidable).
-/
import IclModel.Lemmas.WriterLink
import IclModel.TreeWire
namespace Icl.C01
open Icl Icl.Wire

def sameVals (m : Model) (k : Kind) (a b : Vals) : Bool :=
  dumpVals (fieldKinds (m.layout k)) a == dumpVals (fieldKinds (m.layout k)) b

def recOKb (m : Model) (e : Enc) (k : Kind) (v : Vals) : Bool :=
  let line := bodyLn m e k v
  kindOfLine line == some k && decide (minLen m e line ≤ line.length) &&
  (match recParse m e k line (tmpl m k) with
   | .ok v' => sameVals m k v' v
   | .error _ => false)

def itemOKb (m : Model) (e : Enc) (isCheck : Bool) (it : Item Vals) : Bool :=
  recOKb m e (if isCheck then .checkDetail else .returnDetail) it.detail &&
  it.addA.all (recOKb m e (if isCheck then .cdAddA else .rdAddA)) &&
  it.addB.all (recOKb m e (if isCheck then .cdAddB else .rdAddB)) &&
  it.addC.all (recOKb m e (if isCheck then .cdAddC else .rdAddC)) &&
  it.addD.all (recOKb m e .rdAddD) && it.ivDetail.all (recOKb m e .ivDetail) &&
  it.ivData.all (recOKb m e .ivData) && it.ivAnalysis.all (recOKb m e .ivAnalysis) &&
  (!isCheck || it.addD.isEmpty) && decide (it.ivData.length ≤ it.ivDetail.length) &&
  decide (it.ivAnalysis.length ≤ it.ivDetail.length)

def bundleOKb (m : Model) (e : Enc) (b : Bundle Vals) : Bool :=
  (match b.header with | some h => recOKb m e .bundleHeader h | none => false) &&
  (match b.control with | some c => recOKb m e .bundleControl c | none => false) &&
  (b.checks.isEmpty || b.returns.isEmpty) && (bundleValidate b).isNone &&
  b.checks.all (itemOKb m e true) && b.returns.all (itemOKb m e false)

def cashLetterOKb (m : Model) (e : Enc) (cl : CashLetter Vals) : Bool :=
  (match cl.header with | some h => recOKb m e .cashLetterHeader h | none => false) &&
  (match cl.control with | some c => recOKb m e .cashLetterControl c | none => false) &&
  cl.rns.all (·.isSome) && (cashLetterValidate m cl).isNone &&
  cl.creditItems.all (recOKb m e .creditItem) && cl.credits.all (recOKb m e .credit) &&
  (cl.rns.filterMap id).all (recOKb m e .rns) && cl.bundles.all (bundleOKb m e)

/-- the decidable part of `FileOK m e (bodyLn m e) f` -/
def fileOKb (m : Model) (e : Enc) (f : File Vals) : Bool :=
  let dec : Bytes → Bytes := if e.ebcdic then m.cm.decode else id
  let hl := bodyLn m e .fileHeader f.header
  let cl := bodyLn m e .fileControl f.control
  kindOfLine hl == some .fileHeader && decide (80 ≤ hl.length) && runeCount (dec hl) == 80 &&
  (match parseValidate m .fileHeader id (dec hl) ((m.layout .fileHeader).new m.now) with
   | .ok v => sameVals m .fileHeader v f.header | .error _ => false) &&
  kindOfLine cl == some .fileControl && decide (80 ≤ cl.length) &&
  (match parseValidate m .fileControl id (dec cl) {} with
   | .ok v => sameVals m .fileControl v f.control | .error _ => false) &&
  !(f.control.s "recordType").isEmpty && f.cashLetters.all (cashLetterOKb m e)

def recWhy (m : Model) (e : Enc) (k : Kind) (v : Vals) : String :=
  let line := bodyLn m e k v
  if !(kindOfLine line == some k) then "kind"
  else if !(decide (minLen m e line ≤ line.length)) then s!"length {line.length}"
  else match recParse m e k line (tmpl m k) with
    | .ok v' => "differs: " ++ dumpVals (fieldKinds (m.layout k)) v' ++ " VS " ++ dumpVals (fieldKinds (m.layout k)) v
    | .error x => "parse/validate error " ++ x

/-- which part of the premise fails first (for diagnosis) -/
def fileOKwhy (m : Model) (e : Enc) (f : File Vals) : String :=
  let dec : Bytes → Bytes := if e.ebcdic then m.cm.decode else id
  let hl := bodyLn m e .fileHeader f.header
  let cl := bodyLn m e .fileControl f.control
  if !(kindOfLine hl == some .fileHeader) then "file header kind"
  else if !(runeCount (dec hl) == 80) then s!"file header runes {runeCount (dec hl)}"
  else if !(match parseValidate m .fileHeader id (dec hl) ((m.layout .fileHeader).new m.now) with
            | .ok v => sameVals m .fileHeader v f.header | .error _ => false) then
    (match parseValidate m .fileHeader id (dec hl) ((m.layout .fileHeader).new m.now) with
     | .ok v => "file header differs: " ++ dumpVals (fieldKinds (m.layout .fileHeader)) v ++ " VS " ++ dumpVals (fieldKinds (m.layout .fileHeader)) f.header
     | .error x => "file header parse error " ++ x)
  else if !(match parseValidate m .fileControl id (dec cl) {} with
            | .ok v => sameVals m .fileControl v f.control | .error _ => false) then
    (match parseValidate m .fileControl id (dec cl) {} with
     | .ok v => "file control differs: " ++ dumpVals (fieldKinds (m.layout .fileControl)) v ++ " VS " ++ dumpVals (fieldKinds (m.layout .fileControl)) f.control
     | .error x => "file control parse error " ++ x)
  else if (f.control.s "recordType").isEmpty then "file control recordType empty"
  else
    match f.cashLetters.find? (fun c => !cashLetterOKb m e c) with
    | none => "ok"
    | some c =>
      if !(match c.header with | some h => recOKb m e .cashLetterHeader h | none => false) then "cash letter header " ++ (match c.header with | some h => recWhy m e .cashLetterHeader h | none => "none")
      else if !(match c.control with | some x => recOKb m e .cashLetterControl x | none => false) then "cash letter control"
      else if !(cashLetterValidate m c).isNone then "cashLetterValidate"
      else if !c.creditItems.all (recOKb m e .creditItem) then "credit item"
      else if !c.credits.all (recOKb m e .credit) then "credit"
      else if !(c.rns.filterMap id).all (recOKb m e .rns) then "rns"
      else match c.bundles.find? (fun b => !bundleOKb m e b) with
        | none => "cash letter other"
        | some b =>
          if !(match b.header with | some h => recOKb m e .bundleHeader h | none => false) then "bundle header"
          else if !(match b.control with | some x => recOKb m e .bundleControl x | none => false) then "bundle control"
          else if !(bundleValidate b).isNone then "bundleValidate"
          else "item"

end Icl.C01
