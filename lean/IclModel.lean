import IclModel.Prim
import IclModel.Layout
import IclModel.Gen.Layouts
import IclModel.Spec.Types
import IclModel.Spec.Layouts
