import IclModel.Prim
import IclModel.Layout
import IclModel.Gen.Layouts
