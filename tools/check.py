#!/usr/bin/env python3
"""Orchestrator of the verification framework (see DESIGN.md §2.1).

  check.py <Cxx> <quick|thorough>        run one property's check
  check.py <Cxx> --replay <file>         re-run the case stored in a replay file
  check.py --setup                       build everything once (MANIFEST.setup_cmd)

Per run: regenerate the Lean tables from /repo's working tree, re-check the property's theorems
(lake build + #print axioms audit), rebuild the Go harness against /repo with the `verif` tag, run the
correspondence / predicate evaluation, write evidence/<id>.json, print VIOLATION / KNOWN-FINDING
lines, exit 0/1.
"""
import fcntl, hashlib, json, os, re, shutil, subprocess, sys, time

VERIF = os.path.dirname(os.path.dirname(os.path.abspath(__file__)))
REPO = os.environ.get("VERIF_REPO", "/repo")
LEAN = os.path.join(VERIF, "lean")
HARNESS = os.path.join(VERIF, "harness")
WORK = os.path.join(VERIF, "work")
GEN = os.path.join(LEAN, "IclModel", "Gen")
DRIVER = os.path.join(LEAN, ".lake", "build", "bin", "icldriver")
ALLOWED_AXIOMS = {"propext", "Classical.choice", "Quot.sound"}
FORBIDDEN = re.compile(r"\bsorry\b|\badmit\b|^\s*axiom\s|native_decide|bv_decide|implemented_by|\bunsafe\s|maxHeartbeats\s+0\b")

GOENV = dict(os.environ, GOFLAGS="-mod=mod", GOPROXY="off", GOSUMDB="off", GOTOOLCHAIN="local",
             CGO_ENABLED="0")

# property -> (Lean property modules, harness subcommand present?)
PROPS = {f"C{i:02d}": {"modules": [f"IclModel.Props.C{i:02d}"]} for i in range(1, 21)}
# properties whose statement is assembled from the theorems of other property files
PROPS["C01"]["modules"] += ["IclModel.Props.C01Rec", "IclModel.Props.C01Walk", "IclModel.Props.C02", "IclModel.Props.C03"]
# the writer walk translated from writer.go = the record sequence the build / framing theorems speak about
PROPS["C06"]["modules"] += ["IclModel.Props.C01Walk", "IclModel.Props.C06Build"]
# Bundle.build translated from bundle.go = the build model the walk-completeness theorems speak about
PROPS["C09"]["modules"] += ["IclModel.Props.C06Build", "IclModel.Props.C06Create"]
# File.Create translated from file.go = the model of the file-level tallies and of the walk that rebuilds every bundle
PROPS["C06"]["modules"] += ["IclModel.Props.C06Create"]
PROPS["C17"]["modules"] += ["IclModel.Props.C06Create", "IclModel.Props.C07Build"]
# CashLetter.build translated from cashLetter.go (and the setters it calls) = the numbering / tally model
PROPS["C07"]["modules"] += ["IclModel.Props.C07Build"]
PROPS["C06"]["modules"] += ["IclModel.Props.C07Build"]
PROPS["C09"]["modules"] += ["IclModel.Props.C07Build"]
PROPS["C08"]["modules"] += ["IclModel.Props.C01Walk"]
# Writer.writeLine translated from writer.go = the framing / per-encoding body of the model
for _p in ("C01", "C02", "C08", "C09"):
    PROPS[_p]["modules"] += ["IclModel.Props.C02WriteLine"]
# Bundle.Validate translated from bundle.go = the container check of reader and builds
for _p in ("C09", "C04", "C06", "C01"):
    PROPS[_p]["modules"] += ["IclModel.Props.C09Validate"]
# the state census: no package-level variable, no member of a stateful type beyond what the models keep
for _p in ("C11", "C12", "C13", "C14", "C17", "C20", "C05", "C16", "C19", "C06", "C07", "C08", "C15", "C01", "C02", "C03", "C04", "C09", "C10", "C18"):
    PROPS[_p]["modules"] += ["IclModel.Props.StateCensus"]
# the writer is an observer: its walk and its line writer, translated, mutate nothing (the translation has no assignment to the file)
PROPS["C17"]["modules"] += ["IclModel.Props.C01Walk", "IclModel.Props.C02WriteLine"]
# Reader.parseLine and its handlers translated from reader.go = the step of the reader model
for _p in ("C04", "C18", "C03", "C05"):
    PROPS[_p]["modules"] += ["IclModel.Props.C04Reader"]


def sh(cmd, cwd=None, env=None, timeout=None):
    p = subprocess.run(cmd, cwd=cwd, env=env, stdout=subprocess.PIPE, stderr=subprocess.STDOUT, text=True, timeout=timeout)
    return p.returncode, p.stdout


class Lock:
    def __enter__(self):
        os.makedirs(WORK, exist_ok=True)
        self.f = open(os.path.join(WORK, "lock"), "w")
        fcntl.flock(self.f, fcntl.LOCK_EX)
        return self

    def __exit__(self, *a):
        fcntl.flock(self.f, fcntl.LOCK_UN)
        self.f.close()


def build_go(race=False):
    """(Re)build translator and harness from the current trees. Go's build cache makes this cheap."""
    os.makedirs(os.path.join(WORK, "bin"), exist_ok=True)
    shutil.copyfile(os.path.join(REPO, "go.sum"), os.path.join(HARNESS, "go.sum"))
    mod = []
    if REPO != "/repo":
        # VERIF_REPO: the harness module is built against another checkout of the repository (scratch copies used
        # by background runs; the registered checks always use /repo)
        alt = os.path.join(WORK, "alt.mod")
        txt = open(os.path.join(HARNESS, "go.mod")).read().replace("=> /repo", "=> " + REPO)
        open(alt, "w").write(txt)
        shutil.copyfile(os.path.join(REPO, "go.sum"), os.path.join(WORK, "alt.sum"))
        mod = ["-modfile=" + alt]
    rc, out = sh(["go", "build"] + mod + ["-o", os.path.join(WORK, "bin", "extract"), "./extract"], cwd=HARNESS, env=GOENV)
    if rc != 0:
        return False, "translator build failed:\n" + out
    rc, out = sh(["go", "build"] + mod + ["-tags", "verif", "-o", os.path.join(WORK, "bin", "iclh"), "./iclh"], cwd=HARNESS, env=GOENV)
    if rc != 0:
        return False, "harness build against /repo (tag verif) failed:\n" + out
    racebin = os.path.join(WORK, "bin", "iclh-race")
    if race:
        # the same harness with the race detector (C12's concurrent load; a search aid, needs cgo)
        rc, out = sh(["go", "build"] + mod + ["-race", "-tags", "verif", "-o", racebin, "./iclh"], cwd=HARNESS, env=dict(GOENV, CGO_ENABLED="1"))
        if rc != 0 and os.path.exists(racebin):
            os.remove(racebin)
    return True, ""


def regenerate():
    """Run the translator into a scratch dir, then sync changed files into lean/IclModel/Gen
    (so that lake only rebuilds what changed). Stale generated files are removed."""
    tmp = os.path.join(WORK, "gen.new")
    shutil.rmtree(tmp, ignore_errors=True)
    os.makedirs(tmp)
    tj = os.path.join(WORK, "tables.json")
    if os.path.exists(tj):
        os.remove(tj)
    rc, out = sh([os.path.join(WORK, "bin", "extract"), "-repo", REPO, "-out", tmp, "-json", tj], env=GOENV)
    if rc != 0:
        return False, "translator failed:\n" + out, out
    os.makedirs(GEN, exist_ok=True)
    new = set(os.listdir(tmp))
    for f in os.listdir(GEN):
        if f not in new:
            os.remove(os.path.join(GEN, f))
    for f in new:
        a, b = os.path.join(tmp, f), os.path.join(GEN, f)
        if not os.path.exists(b) or open(a, "rb").read() != open(b, "rb").read():
            shutil.copyfile(a, b)
    shutil.rmtree(tmp, ignore_errors=True)
    return True, "", out


def theorems_of(module):
    path = os.path.join(LEAN, *module.split(".")) + ".lean"
    src = open(path, encoding="utf-8").read()
    ns = ""
    names = []
    lines = src.split("\n")
    depth_comment = 0
    for i, l in enumerate(lines):
        m = re.match(r"^namespace\s+(\S+)", l)
        if m:
            ns = m.group(1)
        m = re.match(r"^(?:private\s+)?theorem\s+(\S+)", l)
        if m:
            names.append((ns + "." + m.group(1) if ns else m.group(1), i + 1))
    return path, names


def strip_comments(src):
    src = re.sub(r"/-.*?-/", "", src, flags=re.S)
    src = re.sub(r"--.*", "", src)
    return src


def forbidden_tokens():
    hits = []
    for root, _, files in os.walk(LEAN):
        if ".lake" in root:
            continue
        for f in files:
            if f.endswith(".lean"):
                p = os.path.join(root, f)
                for n, l in enumerate(strip_comments(open(p, encoding="utf-8").read()).split("\n")):
                    if FORBIDDEN.search(l):
                        hits.append(f"{os.path.relpath(p, VERIF)}: {l.strip()}")
    return hits


def lean_check(prop, tier):
    """Build the property's theorem modules and audit their axioms.
    Returns dict(obligations, discharged, failed:[names], axioms:set, log)."""
    res = {"obligations": 0, "discharged": 0, "failed": [], "axioms": set(), "log": "", "decides": 0}
    mods = PROPS[prop]["modules"]
    all_thms = []
    for m in mods:
        path, names = theorems_of(m)
        all_thms += [(m, path, n, ln) for n, ln in names]
        res["decides"] += len(re.findall(r"\bdecide\b", strip_comments(open(path, encoding="utf-8").read())))
    res["obligations"] = len(all_thms)
    rc, out = sh(["lake", "build"] + mods + ["icldriver"], cwd=LEAN, timeout=3000)
    res["log"] = out
    failed = set()
    if rc != 0:
        # map every error position to its enclosing theorem
        errs = re.findall(r"error: (\S+?\.lean):(\d+):\d+", out)
        for f, ln in errs:
            ln = int(ln)
            owner = None
            for m, path, n, tln in all_thms:
                if os.path.abspath(os.path.join(LEAN, f)) == path and tln <= ln:
                    owner = n
            failed.add(owner or f"{f}:{ln}")
        if not failed:
            failed.add("lake-build")
        res["failed"] = sorted(failed)
        return res
    # audit
    audit = os.path.join(WORK, f"Audit_{prop}.lean")
    with open(audit, "w") as f:
        for m in mods:
            f.write(f"import {m}\n")
        for m, path, n, ln in all_thms:
            f.write(f"#print axioms {n}\n")
    rc, out = sh(["lake", "env", "lean", audit], cwd=LEAN, timeout=1800)
    res["log"] += out
    ok = 0
    for m, path, n, ln in all_thms:
        mm = re.search(r"'" + re.escape(n) + r"' (does not depend on any axioms|depends on axioms: \[([^\]]*)\])", out)
        if not mm:
            failed.add(n)
            continue
        ax = set(a.strip() for a in (mm.group(2) or "").replace("\n", " ").split(",") if a.strip())
        res["axioms"] |= ax
        if ax - ALLOWED_AXIOMS:
            failed.add(n + " (axioms " + ",".join(sorted(ax - ALLOWED_AXIOMS)) + ")")
        else:
            ok += 1
    hits = forbidden_tokens()
    if hits:
        failed.add("forbidden tokens: " + "; ".join(hits[:5]))
    if tier == "thorough" and not failed:
        rc, out = sh(["lake", "env", "leanchecker"] + mods, cwd=LEAN, timeout=3000)
        res["log"] += out
        res["leanchecker"] = (rc == 0)
        if rc != 0:
            failed.add("leanchecker")
    res["discharged"] = ok if not failed else min(ok, res["obligations"] - len(failed))
    res["failed"] = sorted(failed)
    return res


def load_findings():
    p = os.path.join(VERIF, "known_findings.json")
    if not os.path.exists(p):
        return []
    return json.load(open(p))["findings"]


def main():
    args = sys.argv[1:]
    if args and args[0] == "--setup":
        with Lock():
            ok, msg = build_go(race=True)
            if not ok:
                print(msg); sys.exit(1)
            ok, msg, _ = regenerate()
            if not ok:
                print(msg); sys.exit(1)
            rc, out = sh(["lake", "build", "IclModel", "icldriver"], cwd=LEAN, timeout=3000)
            print(out[-3000:])
            sys.exit(rc)
    if len(args) < 2:
        print(__doc__); sys.exit(2)
    prop = args[0]
    replay = None
    if args[1] == "--replay":
        replay = args[2]
        tier = "quick"
    else:
        tier = args[1]
    tier = os.environ.get("VERIF_TIER", tier) if tier not in ("quick", "thorough") else tier
    seed = int(os.environ.get("VERIF_SEED", "1"))
    t0 = time.time()
    evpath = os.path.join(VERIF, "evidence", f"{prop}.json")
    os.makedirs(os.path.dirname(evpath), exist_ok=True)
    violations, known_lines, notes = [], [], []
    with Lock():
        ok, msg = build_go(race=(prop == "C12"))
        if not ok:
            # /repo no longer builds with the hooks: nothing can be checked
            print(msg)
            notes.append(msg)
            lean = {"obligations": 0, "discharged": 0, "failed": ["go-build"], "axioms": set(), "log": msg, "decides": 0}
            report = None
        else:
            ok, msg, xout = regenerate()
            if not ok:
                print(msg)
            lean = lean_check(prop, tier)
            report = None
            rpath = os.path.join(WORK, f"{prop}.report.json")
            if os.path.exists(rpath):
                os.remove(rpath)
            if os.path.exists(DRIVER):
                cmd = [os.path.join(WORK, "bin", "iclh"), "-prop", prop, "-tier", tier, "-seed", str(seed), "-driver", DRIVER,
                       "-tables", os.path.join(WORK, "tables.json"), "-out", rpath, "-verif", VERIF]
                if replay:
                    cmd += ["-replay", replay]
                env = dict(GOENV, GOMEMLIMIT="6GiB")
                env.pop("FRB_COMPATIBILITY_MODE", None)
                rc, out = sh(cmd, env=env, timeout=7200)
                if os.path.exists(rpath):
                    report = json.load(open(rpath))
                else:
                    notes.append("harness produced no report: " + out[-2000:])
                    print(out[-2000:])
            else:
                notes.append("Lean driver did not build; correspondence not run")
    findings = load_findings()
    open_keys = {f["key"]: f for f in findings if f["property"] == prop and f.get("status") == "open"}
    rdir = os.path.join(WORK, "replay")
    os.makedirs(rdir, exist_ok=True)
    nviol = 0
    found_unknown_input = False
    if report:
        for v in report["violations"]:
            if v["key"] in open_keys:
                known_lines.append(f"KNOWN-FINDING: property={prop} {v['key']} {open_keys[v['key']]['what']}")
                continue
            fn = os.path.join(rdir, prop + "-" + re.sub(r"[^A-Za-z0-9_.-]", "_", v["key"])[:120] + ".json")
            json.dump({"property": prop, "key": v["key"], "what": v["what"], "seed": seed, "tier": tier, "replay": v["replay"]},
                      open(fn, "w"), indent=1)
            tail = " no-failing-input-found" if v.get("no_failing_input_found") else ""
            if not v.get("no_failing_input_found"):
                found_unknown_input = True
            violations.append(f"VIOLATION property={prop} replay={fn}{tail}")
            nviol += 1
    if lean["failed"]:
        # a proof obligation no longer checks
        fn = os.path.join(rdir, f"{prop}-proof-obligations.json")
        json.dump({"property": prop, "kind": "obligation", "theorems_that_no_longer_check": lean["failed"],
                   "lean_log_tail": lean["log"][-4000:], "concrete_failing_inputs": [v for v in violations]}, open(fn, "w"), indent=1)
        if not found_unknown_input:
            violations.append(f"VIOLATION property={prop} replay={fn} no-failing-input-found")
            nviol += 1
        else:
            notes.append("broken proof obligations: " + ", ".join(lean["failed"]) + f" (see {fn})")
    if report is None and not lean["failed"]:
        fn = os.path.join(rdir, f"{prop}-harness.json")
        json.dump({"property": prop, "kind": "correspondence", "error": notes}, open(fn, "w"), indent=1)
        violations.append(f"VIOLATION property={prop} replay={fn} no-failing-input-found")
        nviol += 1
    # evidence
    cov = {
        "obligations": lean["obligations"],
        "discharged": lean["discharged"],
        "checker_cmd": "cd lean && lake build " + " ".join(PROPS[prop]["modules"]) + " && lake env lean ../work/Audit_" + prop + ".lean"
                       + (" && lake env leanchecker " + " ".join(PROPS[prop]["modules"]) if tier == "thorough" else ""),
        "trusted_base": ["Lean 4 kernel"] + sorted("axiom " + a for a in lean["axioms"]) + [
            "translator harness/extract (go/ast -> IclModel/Gen/*.lean), validated by the correspondence stream",
            "hand-written Spec tables (lean/IclModel/Spec)", "correspondence harness harness/iclh and its canonicalisation"],
        "decide_side_conditions_in_source": lean["decides"],
        "failed_obligations": lean["failed"],
    }
    if report:
        cov.update({"evaluations": report["evaluations"], "distinct_nontrivial": report["distinct_nontrivial"], "rule": report["rule"],
                    "samples": report["samples"] or ["(none)"], "input_distribution": report["distribution"],
                    "correspondence_ops": report["correspondence_ops"],
                    "correspondence_disagreements": report["correspondence_disagreements"]})
        if report.get("exhaustive"):
            cov["exhaustive"] = True
        if report.get("notes"):
            notes += report["notes"]
    else:
        cov.update({"evaluations": 0, "distinct_nontrivial": 0, "rule": "harness did not run", "samples": ["(none)"]})
    ev = {"property_id": prop, "tier": tier, "seed": seed, "level": "proof", "coverage": cov,
          "assumptions": json.load(open(os.path.join(VERIF, "tools", "assumptions.json"))).get(prop, []) + notes,
          "wall_s": round(time.time() - t0, 2), "violations": nviol, "known_findings_reported": len(known_lines)}
    json.dump(ev, open(evpath, "w"), indent=1)
    for l in known_lines:
        print(l)
    for l in violations:
        print(l)
    if not violations:
        print(f"ok property={prop} tier={tier} obligations={lean['obligations']} discharged={lean['discharged']} "
              f"evaluations={cov['evaluations']} known_findings={len(known_lines)} wall={ev['wall_s']}s")
    sys.exit(1 if violations else 0)


if __name__ == "__main__":
    main()
