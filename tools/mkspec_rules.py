#!/usr/bin/env python3
"""One-off bootstrap used to write lean/IclModel/Spec/Rules.lean (then reviewed by hand against the
field documentation in each record file and docs/file-structure.md): prints the code tables and the
flattened validation sites of a tables.json in Lean syntax, each site with a readable comment."""
import json, sys
t = json.load(open(sys.argv[1]))
def lb(s):
    b = s.encode('latin1') if isinstance(s, str) else s
    return '[' + ', '.join('0x%02X' % c for c in s.encode('utf-8', 'surrogateescape')) + ']'
def lterm(e):
    o = e['op']
    if o == 'fieldS': return f'(.fieldS "{e["name"]}")'
    if o == 'fieldI': return f'(.fieldI "{e["name"]}")'
    if o == 'getter': return f'(.getter "{e["name"]}")'
    if o == 'str': return f'(.str {lb(e.get("str",""))})'
    if o == 'int': return f'(.int ({e.get("int",0)}))'
    if o == 'trim': return f'(.trim {lterm(e["a"])})'
    return '.opaque'
def lbexp(r, e):
    o = e['op']
    if o in ('eq','ne','lt','le','gt','ge'): return f'(.{o} {lterm(e["a"])} {lterm(e["b"])})'
    if o in ('and','or'): return f'(.{o} {lbexp(r,e["a"])} {lbexp(r,e["b"])})'
    if o == 'not': return f'(.not {lbexp(r,e["a"])})'
    if o == 'iszero':
        isT = any(w['src']==e['name'] and w['conv']=='time' for w in r['write'])
        return f'(.iszero "{e["name"]}" {"true" if isT else "false"})'
    if o == 'frb': return '.frb'
    if o == 'false': return '.ff'
    if o == 'invalid': return f'(.invalid "{e["name"]}" {lterm(e["a"])})'
    if o == 'dictHas': return f'(.dictHas "{e["name"]}" {lterm(e["a"])})'
    if o == 'contains': return f'(.contains {lterm(e["a"])} {lb(e.get("str",""))})'
    if o == 'yearOutside': return f'(.yearOutside "{e["name"]}" {e.get("int",0)} {e["a"].get("int",0)})'
    return '.opaque'
def term(e):
    o=e['op']
    if o in('fieldS','fieldI'): return e['name']
    if o=='getter': return e['name']+'()'
    if o=='str': return json.dumps(e.get('str',''))
    if o=='int': return str(e.get('int',0))
    if o=='trim': return 'trim('+term(e['a'])+')'
    return '?'
def bexp(e):
    o=e['op']
    if o in('eq','ne','lt','le','gt','ge'): return f"{term(e['a'])} {o} {term(e['b'])}"
    if o in('and','or'): return f"({bexp(e['a'])} {o} {bexp(e['b'])})"
    if o=='not': return 'not '+bexp(e['a'])
    if o=='iszero': return f"iszero({e['name']})"
    if o=='frb': return 'FRB'
    if o=='false': return 'false'
    if o=='invalid': return f"!{e['name']}({term(e['a'])})"
    if o=='dictHas': return f"{e['name']}[{term(e['a'])}]"
    if o=='contains': return f"contains({term(e['a'])},{e.get('str')!r})"
    if o=='yearOutside': return f"year({e['name']}) outside {e.get('int')}..{e['a'].get('int')}"
    return '?'+o
def flat(r, s, path, out):
    """returns True when control cannot continue past s"""
    k = s['k']
    if k == 'skip': return False
    if k == 'seq':
        if flat(r, s['a'], path, out): return True
        return flat(r, s['b'], path, out)
    if k == 'ite':
        ta = flat(r, s['a'], path + [(s['cond'], True)], out)
        tb = flat(r, s['b'], path + [(s['cond'], False)], out)
        return ta and tb
    if k == 'reject': out.append((s['field'], path, None)); return True
    if k == 'assign': out.append((s['field'], path, s['val'].get('str',''))); return False
    out.append(('<opaque>', path, None)); return True
print('''/-
Spec — validation rules of every record in flattened form (one entry per rejection, with the
conditions under which it applies) and the code tables, transcribed from the field documentation of
each record file (the `Values:` lists in the struct comments), the comments of validators.go and the
M/C usage column of docs/file-structure.md.  Committed and reviewed; NOT regenerated.
Reading guide: a site `{ field := F, path := [(c1, true), (c2, false)] }` says "a record is rejected
on field F when c1 holds and c2 does not".
-/
import IclModel.Sites
namespace Icl.Spec
open Icl
''')
print('def codes : Codes := [')
rows=[]
for c in t['codes']:
    if c['kind']=='str': e='.strs ['+', '.join(lb(s) for s in c.get('strs',[]))+']'; cm=' '.join(repr(s) for s in c.get('strs',[]))
    elif c['kind']=='int': e='.ints ['+', '.join(str(i) for i in c.get('ints',[]))+']'; cm=''
    elif c['kind']=='class':
        e='.cls ['+', '.join('0x%02X'%i for i,b in enumerate(c['class']) if b)+']'; cm=''.join(chr(i) for i,b in enumerate(c['class']) if b)
    else: e='.opaque'; cm=''
    rows.append(f'  -- {c["name"]}: {cm}\n  ("{c["name"]}", {e})')
print(',\n'.join(rows)); print(']\n\nnamespace Rules\n')
for r in t['records']:
    out=[]; flat(r, r['rules'][0], [], out)
    print(f'/-- {r["tag"]} {r["go"]} -/\ndef {r["lean"]} : List Site := [')
    rows=[]
    for f,path,asg in out:
        cm=' && '.join((bexp(c) if pol else 'not('+bexp(c)+')') for c,pol in path)
        p='['+', '.join(f'({lbexp(r,c)}, {"true" if pol else "false"})' for c,pol in path)+']'
        a='' if asg is None else f', assign := some {lb(asg)}'
        act='reject' if asg is None else f'set to {asg!r}'
        rows.append(f'  -- {f}: {act} when {cm}\n  {{ field := "{f}", path := {p}{a} }}')
    print(',\n'.join(rows)); print(']\n')
print('end Rules\n\ndef allRules : List (String × List Site) := ['+', '.join(f'("{r["go"]}", Rules.{r["lean"]})' for r in t['records'])+']\n\nend Icl.Spec')
