#!/usr/bin/env python3
"""Regenerates /verif/MANIFEST.json from the table below (kept here so that the manifest stays
consistent while the framework grows)."""
import json, os
VERIF = os.path.dirname(os.path.dirname(os.path.abspath(__file__)))
props = [json.loads(l) for l in open(os.path.join(VERIF, "properties.jsonl"))]
TB = "Trusted: Lean 4 kernel (axioms propext, Quot.sound, Classical.choice only; audited every run), the go/ast translator harness/extract, the hand transcriptions under lean/IclModel/Spec, the correspondence harness harness/iclh and its canonicalisation. "

CHECKS = {
 "C01": ("Layered Lean proof: records rendered in the transcribed columns (C02 theorems), parsed from the same columns (C03 table theorems), length-prefix framing lossless for arbitrary bytes (splitLP_joinLP). The hand-written Lean model of Writer.Write / Reader.Read (tree walk, reader state machine, EBCDIC tables regenerated from the pinned library) is tied to the code by writing and reading generated canonical files in all four encodings with both.",
         TB + "PARTIAL at proof level: tree reassembly and field-level inverses are covered by the write/read correspondence stream, not yet by theorems. Three recorded findings.",
         "Lean 4 proof (layers) + model/implementation correspondence on generated canonical files", "§7.1"),
 "C02": ("Generic Lean theorems (exact length, exact columns, cut, fill, frame; variable sections 46+K / 117+K+S+I) instantiated by `decide` on the write tables regenerated from every record's String()/getters, against a hand transcription of X9.100-187.",
         TB + "Go strconv/time as modelled in Prim.lean (validated by ~55000 converter ops per run).",
         "Lean 4 proof over regenerated layout tables + correspondence", "§7.2"),
 "C03": ("`decide` shows every regenerated Parse() reads exactly the transcribed columns into the named field with the prescribed conversion (parse_*). Streams are rendered from the Spec layout by the Lean driver (not by the library), read by the real Reader and compared with the direct column decoding (Lean reader over Spec tables); write/read cycles compared byte for byte.",
         TB + "PARTIAL at proof level: idempotence of write∘read is checked on generated streams, not proved.",
         "Lean 4 table proofs + Spec-rendered streams vs real Reader", "§7.3"),
 "C04": ("The X9 nesting automaton and the census of a file are Lean definitions; the Lean model of the reader state machine is tied to reader.go by EVERY single structural fault (delete, duplicate, move, insert of each kind, cut) of generated valid files, on which the census predicate is evaluated for the real Reader's result.",
         TB + "PARTIAL at proof level: the invariant `census(state) = attribute(consumed)` over the model's step function is stated, its proof is in progress; the fault enumeration is exhaustive per generated file. One recorded finding (duplicate file header, pinned by the repository's own test).",
         "Lean 4 model of the reader state machine + exhaustive single-fault correspondence", "§7.4"),
 "C05": ("Reader: Lean proves that a Parse() statement list passing the decidable check guardOK (every slice dominated by an earlier length guard) never reaches the interpreter's panic outcome, for every input string (parseStmts_no_panic, using runeCount <= length); `decide` establishes guardOK for the Parse() regenerated from each of the 22 record types; the model reader is total by construction. The model is tied to reader.go on malformed inputs (every record resized to every length, lying length fields and prefixes, non-UTF-8 text, random bytes, the repository's crasher corpus, four option sets). JSON loader, build and writer on nil shapes: every single-position mutation of a full document, each returned file (also with an error) validated, marshalled, written x4 and built under recover, time and allocation bounds.",
         TB + "PARTIAL: wall-clock hangs and real heap use are runtime properties that a Lean model cannot exhibit (the harness bounds them: 5 s, 64*(input+buffer)+4 MiB per read); the JSON-tail nil-shape analysis is enumeration, not proof.",
         "Lean 4 proof (guard domination => no panic) over regenerated Parse tables + malformed-input correspondence + JSON mutation enumeration", "§7.5"),
 "C06": ("Lean theorems on the build model (Bundle.build / CashLetter.build / File.Create transcribed): every total in the control produced by a successful build is the corresponding sum over the content (bundle_control_recount, file_control_recount) and TotalRecordCount equals the length of the writer walk for every file the writer accepts (total_record_count_is_written, via file_count_eq_flatten: counter formula = File.flatten length by induction over cash letters, bundles, items and image-view indices). The model is tied to the code by building generated trees (credits, credit items, summaries, any addenda/views) with the real Create() calls and the model; the recount and written-line predicates are evaluated on the real result.",
         TB + "The build model is hand-written (correspondence, 0 disagreements); cash-letter level recount is checked on the real code, its model theorem is not yet stated.",
         "Lean 4 proof on the build model + build correspondence", "§7.6"),
 "C07": ("Lean theorems on the model's numbering loops: addenda A / C of every built check item carry 1,2,3,.. and the same integer their item is stamped with, supplied numbers keep their value (numberChecks_spec), bundles are numbered n, n+1, .. in order (buildBundles_numbers); the uniqueness clause is false and `filled_can_collide` proves the witness (recorded finding). Tied to cashLetter.go by building cash letters with up to 9 A / 12 C,D addenda and seeded blank/supplied sequence numbers with the real CashLetter.Create() and the model.",
         TB + "Return items (addenda A / D) are covered by the correspondence stream; their model theorem mirrors numberChecks_spec and is not yet stated. One recorded finding.",
         "Lean 4 proof on the build model + build correspondence", "§7.7"),
 "C08": ("Lean theorems about the model writer: both framings wrap the same body and the prefix is len(record.String()) (framing_wraps_same_body); under EBCDIC the body of an ASCII-text record is its byte-for-byte CP037 transliteration of equal length (ebcdic_translit, via encode_ascii over the encoder model and the regenerated table), record 52 transliterates toString(false) and passes the image bytes of String() through (ebcdic_ivData); length-prefix framing is lossless (splitLP_joinLP). The model writer is tied to writer.go by rendering generated files (base64 images, lying image lengths, binary signatures included) in all four option sets with both, and the relations are checked on the real bytes.",
         TB + "gdamore/encoding's encoder is modelled (rune-level, chunk boundary behaviour of x/text transform.String beyond 128-byte lines is NOT modelled; lines with non-ASCII text longer than 128 bytes are outside the model). One recorded finding (binary signature under EBCDIC).",
         "Lean 4 proof on the writer model + four-rendering correspondence", "§7.8"),
 "C15": ("`decide` on the regenerated server schema (struct tags, types): JSON member names are distinct under encoding/json's case-insensitive matching, every field the X9 layout writes is a JSON member; Lean theorem that the rebuild performed by FileFromJSON keeps the bundle control's caller-settable members (bundle_keeps_user_members). End to end: generated fully populated built files (IDs, user fields, binary bytes, zero/non-zero optional dates) through json.Marshal -> FileFromJSON, members and X9 bytes in four encodings compared.",
         TB + "PARTIAL at proof level: encoding/json itself is not modelled (schema-level facts only); the round trip is established on generated files.",
         "Lean 4 table proofs over the regenerated JSON schema + round-trip harness", "§7.15"),
 "C16": ("scanVariableLengthLines is TRANSLATED statement by statement into Lean (Gen.splitLP, regenerated each run); Lean proves it satisfies SplitOK (splitLP_ok) and, for any SplitOK split function, that the bufio.Scanner model yields the whole-input reference over EVERY chunk schedule (zero-length reads included) and buffer bound unless ErrTooLong (scan_eq_ref, chunk_independent); a stream cut inside a record ends in ErrUnexpectedEOF (cut_is_error). The scanner model is tied to the real bufio.Scanner by reading every truncation of generated files through chunking io.Readers and several buffer sizes, including too-small ones.",
         TB + "bufio.Scanner is modelled (pending bytes, buffer bound, reads capped by room); its 100-empty-reads limit and ErrFinalToken are not modelled. bufio.ScanLines (newline framing) is modelled but its SplitOK proof is not done: newline framing is covered by the chunked correspondence only.",
         "Lean 4 proof over the translated split function + scanner model; chunked-reader correspondence", "§7.16"),
 "C17": ("Regenerated write-effect table (every assignment through the receiver in every observer method: Validate, fieldInclusion, String, toString, *Field, MarshalJSON, Get*, ...): `decide` shows it holds exactly the two FRB-gated normalisations; Lean proves that with the mode off every regenerated rule tree returns the record unchanged, for every record value (validate_off_is_identity), and validating twice = once. Real code: reflection snapshots of every exported and unexported field around seeded observer sequences on valid and spoiled files; build twice vs once.",
         TB + "Idempotence of build is checked on the real code and through the build correspondence, its model theorem is not stated (needs the parse∘format inverse).",
         "Lean 4 proof over regenerated rule trees and write-effect table + snapshot harness", "§7.17"),
 "C18": ("Lean theorems on the reader model: a failed read carries the 1-based position of the record at which the loop stopped (C18_error_line, using lineStable proved by case analysis of all 21 record kinds) and the rejecting step leaves r.File untouched (rejected_record_leaves_file). Tied to reader.go by spoiling every record of generated files in every way (each field blank/zero/illegal, too short, unknown type) and comparing verdict, line and partial file.",
         TB + "The theorem speaks about the model's step function; agreement with reader.go is by correspondence (0 disagreements over every spoil of the generated files).",
         "Lean 4 proof on the reader model + exhaustive spoiled-record correspondence", "§7.18"),
 "C19": ("Lean: `Mono`, a decidable criterion on rule trees (mode used only to skip a rejection, or to normalise a value the mode-off path rejects), is proved sound for every record value (mono_sound) and established by `decide` for the rule tree regenerated from every Validate(); hence validate_relaxes. Reader level: both modes are run by the real Reader and the model on generated files and per-column character sweeps (ASCII and EBCDIC).",
         TB + "PARTIAL at proof level for the reader: the IBM1047 byte substitution on addendum A lines (EBCDIC input only, after the recorded fix) is covered by the two-mode correspondence stream, not by a theorem.",
         "Lean 4 proof over regenerated rule trees + two-mode correspondence", "§7.19"),
 "C20": ("Server and client JSON schemas are regenerated from struct tags and field types (library model; client/model_*.go); `mismatches` (decidable: no client member of matching name, or a type that cannot hold the values, e.g. int32 for a 10+ digit amount) is shown by `decide` to equal the committed list of recorded findings exactly, so any further drift breaks the theorem. Real code: fully populated server documents through client.IclFile and back, compared leaf by leaf; each wide integer at its column maximum.",
         TB + "The property is FALSE on the pinned tree for the recorded members (39 schema entries; 69 leaf-level keys in known_findings.json); the client is generated from openapi.yaml, regenerating it is not a small repair. The client's HTTP plumbing is exercised by C11's harness only.",
         "Lean 4 table proof over regenerated schemas + through-the-client wire comparison", "§7.20"),
 "C09": ("Walk completeness proved on the build model: a successful Bundle.build has run the record validator (the same regenerated rule tree the reader runs after parsing) on the header, every check/return item with all addenda and image views, and the rebuilt control (bundle_walk_complete). Tied to the code by the FULL matrix: every record of generated files x every field x {blank, zeros, code outside any table, illegal character}: accept/reject verdict of real Create()+Validate() vs the model, and whenever the real build or FileFromJSON accepts, the written bytes are read back by the real Reader.",
         TB + "PARTIAL at proof level: cash-letter/file level walk (header, credits, credit items, summaries) and the second half (valid records parse back valid) are covered by the matrix and the C01 round trip, not by theorems yet.",
         "Lean 4 proof on the build model + exhaustive single-field fault matrix", "§7.9"),
 "C10": ("Validate() of every record is translated (go/ast) into a statement tree; Lean proves that its verdict on ANY record value is the first firing rule of its flattening (validate_sites) and `decide` shows the flattening and all code tables equal the hand-transcribed documented rules. The finite domain the property names (0-2 character strings, ints -1..100, both FRB settings) is additionally enumerated against the real Validate().",
         TB + "Go regexp evaluated per byte for the three character classes; the rule translator is validated each run by ~1M real Validate() verdicts.",
         "Lean 4 proof over regenerated rule trees/code tables + exhaustive correspondence", "§7.10"),
}

def chk(pid):
    text, note, tech, ref = CHECKS[pid]
    return {"property_id": pid, "quick_cmd": f"./check {pid} quick", "thorough_cmd": f"./check {pid} thorough",
            "evidence_file": f"/verif/evidence/{pid}.json", "replay_cmd_template": f"./check {pid} --replay {{path}}",
            "engine": "lean4+go-harness",
            "level_claimed": {"category": "proof", "text": text, "design_ref": "DESIGN.md " + ref},
            "level_note": note, "technique": tech}

m = {"version": 1, "setup_cmd": "./check --setup",
     "hooks": {"guard": "verif", "enable": "go build -tags verif (harness/iclh is rebuilt against /repo with the tag on every check run)",
               "baseline_off_cmd": "cd /repo && go test -mod=mod -vet=off -count=1 ./...",
               "source_commits": ["2bdd96d"], "add_only": True},
     "engines": [{"name": "lean4+go-harness", "path": "check", "serves_properties": sorted(CHECKS),
                  "kind_free_text": "Lean 4 theorems over tables regenerated from /repo by harness/extract + Go/Lean line-protocol correspondence (harness/iclh, lean/Driver.lean)"}],
     "checks": [chk(p) for p in sorted(CHECKS)],
     "not_applicable": [{"property_id": p["id"], "reason": "check not built yet in this round (work in progress; see DESIGN.md)"}
                        for p in props if p["id"] not in CHECKS],
     "notes": "see DESIGN.md; known_findings.json lists recorded findings and fix: commits"}
json.dump(m, open(os.path.join(VERIF, "MANIFEST.json"), "w"), indent=1)
print("manifest:", len(m["checks"]), "checks,", len(m["not_applicable"]), "not applicable")
