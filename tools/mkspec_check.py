#!/usr/bin/env python3
"""One-off helper used while transcribing lean/IclModel/Spec/Layouts.lean: compares the positions/sizes
printed in /repo/docs/file-structure.md with a tables.json produced by harness/extract and prints every
disagreement, so that each could be resolved by hand against X9.100-187 (see DESIGN.md, trusted base)."""
import json, re, sys
doc = open('/repo/docs/file-structure.md', encoding='utf-8').read()
tables = json.load(open(sys.argv[1]))
secs = re.split(r'\n### ', doc)
docrecs = {}
for s in secs:
    m = re.match(r'(\d\d) (.*?)\n', s)
    if not m: continue
    rows = []
    for line in s.split('\n'):
        c = [x.strip() for x in line.strip().strip('|').split('|')]
        if len(c) >= 6 and re.match(r'\*\d+\*', c[0]):
            rows.append(c)
    docrecs.setdefault(m.group(1), []).append((m.group(2), rows))
for r in tables['records']:
    cands = docrecs.get(r['tag'], [])
    if not cands:
        print('NO DOC', r['go']); continue
    name, rows = cands[0] if r['go'] != 'UserPayeeEndorsement' else cands[1]
    ws = r['write']
    if len(rows) != len(ws):
        print('COUNT', r['go'], len(rows), len(ws))
    pos = 0
    for row, w in zip(rows, ws):
        p = re.sub(r'[–-]', '-', row[1])
        m = re.match(r'^(\d+)\s*-\s*(\d+)$', p)
        if m:
            a, b = int(m.group(1)), int(m.group(2))
            if a - 1 != pos or b - a + 1 != w['width'] or str(w['width']) != row[2]:
                print('POS', r['go'], row[0], row[1], 'size', row[2], row[4], '| code start', pos, 'width', w['width'], w['getter'])
        else:
            print('VAR', r['go'], row[0], row[1], row[2], '| code', pos, w['width'], w['conv'], w['getter'])
        ty = row[3]
        exp = {'N': ('numeric', 'zstr', 'date', 'time', 'lit', 'numericBlankNonPos', 'dateBlankZero'), 'NBSM': ('nbsm',), 'NBSMOS': ('nbsm',)}.get(ty, ('alpha', 'alphaVar', 'bytesVar', 'image'))
        if w['conv'] not in exp:
            print('TYPE', r['go'], row[0], ty, row[4], '| code conv', w['conv'])
        pos += w['width']
