#!/usr/bin/env python3
"""Confirm and evaluate seeded breakages produced by independent sub-agents.

  seedrun.py confirm <Cxx> <n>      confirm patch n of /tmp/seedout/Cxx in a scratch worktree (suite passes with
                                    the change, demo fails with it, demo passes without it) and, if confirmed,
                                    store it as /verif/seeded/<Cxx>-<n>/
  seedrun.py detect <seed-id> [tier] [props...]
                                    apply /verif/seeded/<seed-id>/patch.diff to /repo, run the named checks
                                    (default: the property the seed targets), undo the patch, record the outcome in
                                    /verif/seeded/<seed-id>/meta.json
  seedrun.py table                  print the detection table (markdown)
"""
import json, os, re, shutil, subprocess, sys, time

VERIF = os.path.dirname(os.path.dirname(os.path.abspath(__file__)))
REPO = "/repo"
SEEDOUT = "/tmp/seedout"
SCRATCH = "/tmp/seedchk"
GOENV = dict(os.environ, GOFLAGS="-mod=mod", GOPROXY="off", GOSUMDB="off", GOTOOLCHAIN="local")


def sh(cmd, cwd=None, env=None, timeout=1800):
    p = subprocess.run(cmd, cwd=cwd, env=env, stdout=subprocess.PIPE, stderr=subprocess.STDOUT, text=True, errors="replace", timeout=timeout)
    return p.returncode, p.stdout


def scratch():
    if os.path.isdir(SCRATCH):
        sh(["git", "-C", REPO, "worktree", "remove", "--force", SCRATCH])
        shutil.rmtree(SCRATCH, ignore_errors=True)
    rc, out = sh(["git", "-C", REPO, "worktree", "add", "--detach", SCRATCH, "HEAD"])
    if rc != 0:
        raise SystemExit(out)


def unscratch():
    sh(["git", "-C", REPO, "worktree", "remove", "--force", SCRATCH])
    shutil.rmtree(SCRATCH, ignore_errors=True)


def confirm(prop, n, sid=None, srcroot=None):
    src = os.path.join(srcroot or SEEDOUT, prop)
    patch = os.path.join(src, f"patch{n}.diff")
    demo = os.path.join(src, f"demo{n}_test.go")
    meta = os.path.join(src, f"meta{n}.json")
    if not (os.path.exists(patch) and os.path.exists(demo)):
        print("missing deliverables for", prop, n); return False
    first = open(demo).readline()
    m = re.search(r"place in:\s*(\S+)", first)
    place = m.group(1) if m else "."
    scratch()
    res = {}
    try:
        # demo passes on the clean tree
        dst = os.path.join(SCRATCH, place, f"zz_seed_demo{n}_test.go")
        shutil.copyfile(demo, dst)
        rc, out = sh(["go", "test", "-vet=off", "-count=1", "./" + place], cwd=SCRATCH, env=GOENV)
        res["demo_passes_without_change"] = rc == 0
        res["demo_clean_tail"] = out[-400:]
        os.remove(dst)
        rc, out = sh(["git", "apply", patch], cwd=SCRATCH)
        if rc != 0:
            # the tree moved on under the patch (a later fix: commit nearby): three-way merge, keep the rebased diff
            rc, out2 = sh(["git", "apply", "--3way", patch], cwd=SCRATCH)
            if rc == 0:
                sh(["git", "reset", "-q"], cwd=SCRATCH)
                rc2, rebased = sh(["git", "diff"], cwd=SCRATCH)
                patch = os.path.join(src, f"patch{n}.rebased.diff")
                open(patch, "w").write(rebased)
                res["rebased"] = True
            out = out + out2
        if rc != 0:
            res["applies"] = False
            res["apply_out"] = out[-400:]
            print(json.dumps(res, indent=1)); return False
        res["applies"] = True
        rc, out = sh(["go", "test", "-vet=off", "-count=1", "./..."], cwd=SCRATCH, env=GOENV)
        res["suite_passes_with_change"] = rc == 0
        if rc != 0:
            res["suite_tail"] = out[-600:]
        shutil.copyfile(demo, dst)
        rc, out = sh(["go", "test", "-vet=off", "-count=1", "./" + place], cwd=SCRATCH, env=GOENV)
        res["demo_fails_with_change"] = rc != 0
        res["demo_fail_tail"] = out[-600:]
    finally:
        unscratch()
    ok = res.get("applies") and res.get("suite_passes_with_change") and res.get("demo_fails_with_change") and res.get("demo_passes_without_change")
    print(prop, n, "confirmed" if ok else "NOT confirmed", {k: v for k, v in res.items() if isinstance(v, bool)})
    if not ok:
        print(json.dumps(res, indent=1)[:1500])
        return False
    sid = sid or f"{prop}-{n}"
    d = os.path.join(VERIF, "seeded", sid)
    os.makedirs(d, exist_ok=True)
    shutil.copyfile(patch, os.path.join(d, "patch.diff"))
    shutil.copyfile(demo, os.path.join(d, "demo_test.go"))
    am = json.load(open(meta)) if os.path.exists(meta) else {}
    mj = {"seed": sid, "property": prop, "breaks": am.get("summary", ""), "needs_to_manifest": am.get("needs_to_manifest", ""),
          "files_changed": am.get("files_changed", []), "demo_place_in": place,
          "confirmed": {"by": "tools/seedrun.py confirm (scratch worktree of /repo HEAD, removed afterwards)",
                        "repo_commit": sh(["git", "-C", REPO, "rev-parse", "--short", "HEAD"])[1].strip(),
                        "ran": ["go test -vet=off -count=1 ./<place> with the demo on the clean tree: pass",
                                "git apply patch.diff; go test -vet=off -count=1 ./... : pass",
                                "go test -vet=off -count=1 ./<place> with the demo and the change: fail"],
                        "demo_failure_tail": res["demo_fail_tail"][-300:]},
          "detection": {}}
    old = os.path.join(d, "meta.json")
    if os.path.exists(old):
        mj["detection"] = json.load(open(old)).get("detection", {})
    json.dump(mj, open(old, "w"), indent=1)
    return True


def detect(sid, tier="quick", props=None):
    d = os.path.join(VERIF, "seeded", sid)
    mj = json.load(open(os.path.join(d, "meta.json")))
    props = props or [mj["property"]]
    rc, out = sh(["git", "-C", REPO, "status", "--porcelain"])
    if out.strip():
        raise SystemExit("/repo is not clean:\n" + out)
    rc, out = sh(["git", "-C", REPO, "apply", os.path.join(d, "patch.diff")])
    if rc != 0:
        raise SystemExit("patch does not apply: " + out)
    # evidence/<p>.json is rewritten by every check run: keep the unchanged-tree evidence aside
    saved = {}
    for p in props:
        ep = os.path.join(VERIF, "evidence", f"{p}.json")
        if os.path.exists(ep):
            saved[ep] = open(ep).read()
    try:
        for p in props:
            t0 = time.time()
            rc, out = sh([os.path.join(VERIF, "check"), p, tier], cwd=VERIF, timeout=7200)
            viol = [l for l in out.split("\n") if l.startswith("VIOLATION")]
            replays = []
            for l in viol:
                m = re.search(r"replay=(\S+)", l)
                if m and os.path.exists(m.group(1)):
                    try:
                        r = json.load(open(m.group(1)))
                        replays.append({"key": r.get("key", r.get("kind")), "what": str(r.get("what", r.get("theorems_that_no_longer_check", "")))[:300]})
                    except Exception:
                        pass
            mj["detection"][f"{p}:{tier}"] = {"exit": rc, "violations": viol, "replays": replays, "wall_s": round(time.time() - t0, 1),
                                              "caught": rc == 1 and bool(viol)}
            print(sid, p, tier, "CAUGHT" if (rc == 1 and viol) else "MISSED", f"({round(time.time()-t0,1)}s)")
            for l in viol[:4]:
                print("   ", l)
            for r in replays[:4]:
                print("     -", r["key"], "|", r["what"][:160])
            if rc not in (0, 1) or (rc == 1 and not viol):
                print(out[-1500:])
    finally:
        sh(["git", "-C", REPO, "checkout", "--", "."])
        sh(["git", "-C", REPO, "clean", "-fdq"])
        for ep, txt in saved.items():
            open(ep, "w").write(txt)
    json.dump(mj, open(os.path.join(d, "meta.json"), "w"), indent=1)
    # restore evidence of the unchanged tree later (caller's job)


def harmless(area, n, props, srcroot="/tmp/seedout3"):
    """Store a behaviour-preserving refactoring as /verif/seeded/H-<area>-<n>/ and run the named checks with it
    applied: every alarm is a false alarm (or, if it comes with a failing input, a mistaken 'harmless' claim)."""
    sid = f"H-{area}-{n}"
    d = os.path.join(VERIF, "seeded", sid)
    os.makedirs(d, exist_ok=True)
    src = os.path.join(srcroot, area)
    if os.path.exists(os.path.join(src, f"patch{n}.diff")):
        shutil.copyfile(os.path.join(src, f"patch{n}.diff"), os.path.join(d, "patch.diff"))
        note = open(os.path.join(src, f"note{n}.txt")).read() if os.path.exists(os.path.join(src, f"note{n}.txt")) else ""
    else:
        note = json.load(open(os.path.join(d, "meta.json"))).get("change", "")
    mp = os.path.join(d, "meta.json")
    mj = json.load(open(mp)) if os.path.exists(mp) else {"seed": sid, "kind": "harmless", "change": note.strip(), "runs": {}}
    rc, out = sh(["git", "-C", REPO, "status", "--porcelain"])
    if out.strip():
        raise SystemExit("/repo is not clean:\n" + out)
    rc, out = sh(["git", "-C", REPO, "apply", os.path.join(d, "patch.diff")])
    if rc != 0:
        raise SystemExit("patch does not apply: " + out)
    saved = {}
    for p in props:
        ep = os.path.join(VERIF, "evidence", f"{p}.json")
        if os.path.exists(ep):
            saved[ep] = open(ep).read()
    try:
        rc, out = sh(["go", "test", "-vet=off", "-count=1", ".", "./internal/...", "./cmd/..."], cwd=REPO, env=GOENV)
        mj["suite_passes"] = rc == 0
        for p in props:
            t0 = time.time()
            rc, out = sh([os.path.join(VERIF, "check"), p, "quick"], cwd=VERIF, timeout=7200)
            viol = [l for l in out.split("\n") if l.startswith("VIOLATION")]
            mj["runs"][p] = {"exit": rc, "violations": viol, "wall_s": round(time.time() - t0, 1)}
            print(sid, p, "quiet" if rc == 0 else "ALARM", viol[:3])
    finally:
        sh(["git", "-C", REPO, "checkout", "--", "."])
        sh(["git", "-C", REPO, "clean", "-fdq"])
        for ep, txt in saved.items():
            open(ep, "w").write(txt)
    json.dump(mj, open(mp, "w"), indent=1)


def table():
    root = os.path.join(VERIF, "seeded")
    print("| seed | property | change | needs | caught by |")
    print("|---|---|---|---|---|")
    for sid in sorted(os.listdir(root)):
        mp = os.path.join(root, sid, "meta.json")
        if not os.path.exists(mp):
            continue
        m = json.load(open(mp))
        if m.get("kind") == "harmless":
            continue
        caught = [k for k, v in m.get("detection", {}).items() if v.get("caught")]
        missed = [k for k, v in m.get("detection", {}).items() if not v.get("caught")]
        keys = []
        for k in caught:
            rs = m["detection"][k].get("replays", [])
            # concrete property violations first, model/implementation disagreements after
            rs = [r for r in rs if ":corr" not in str(r["key"])] + [r for r in rs if ":corr" in str(r["key"])]
            for r in rs[:2]:
                keys.append(f"{k} → `{r['key']}`")
        if m.get("obsolete"):
            print(f"| {sid} | {m['property']} | {m['breaks'][:170].replace('|','/').replace(chr(10),' ')} | {m['needs_to_manifest'][:130].replace('|','/').replace(chr(10),' ')} | OBSOLETE: {m['obsolete'][:260]} |")
            continue
        print(f"| {sid} | {m['property']} | {m['breaks'][:170].replace('|','/').replace(chr(10),' ')} | {m['needs_to_manifest'][:130].replace('|','/').replace(chr(10),' ')} | "
              f"{'; '.join(keys) if keys else ('MISSED: ' + ','.join(missed) if missed else 'not run')} |")


if __name__ == "__main__":
    a = sys.argv[1:]
    if a[0] == "confirm":
        confirm(a[1], a[2], a[3] if len(a) > 3 else None, a[4] if len(a) > 4 else None)
    elif a[0] == "detect":
        detect(a[1], a[2] if len(a) > 2 else "quick", a[3:] or None)
    elif a[0] == "harmless":
        harmless(a[1], a[2], a[3:])
    elif a[0] == "table":
        table()
